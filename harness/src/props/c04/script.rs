//! Script executor over the REAL `SrtpSession` (shared by C04 and C05). A case is a list of tokens
//! (`n,…` new session, `t,…` clock, `pr/ur/pc/uc` protect / unprotect RTP / RTCP with
//! back-references to earlier outputs and byte-level mutations, `sn` table snapshot); the Lean
//! driver (`RtcModel.Srtp.Script`) interprets the same tokens on the model.
//! Optionally every session is shadowed by `webrtc-srtp` contexts (three-way comparison).
use crate::{hex, unhex};
use bytes::BytesMut;
use rustrtc::rtp::{RtpHeader, RtpHeaderExtension, RtpPacket};
use rustrtc::srtp::{SrtpKeyingMaterial, SrtpPacket, SrtpProfile, SrtpSession};
use sha1::{Digest, Sha1};
use webrtc_srtp::context::Context as RefCtx;
use webrtc_srtp::protection_profile::ProtectionProfile as RefProfile;

pub const PROFILES: [&str; 4] = ["cm80", "cm32", "gcm", "null"];

pub fn profile_of(s: &str) -> SrtpProfile {
    match s {
        "cm80" => SrtpProfile::Aes128Sha1_80,
        "cm32" => SrtpProfile::Aes128Sha1_32,
        "gcm" => SrtpProfile::AeadAes128Gcm,
        "null" => SrtpProfile::NullCipherHmac,
        x => panic!("bad profile {x}"),
    }
}
pub fn ref_profile_of(s: &str) -> Option<RefProfile> {
    match s {
        "cm80" => Some(RefProfile::Aes128CmHmacSha1_80),
        "cm32" => Some(RefProfile::Aes128CmHmacSha1_32),
        "gcm" => Some(RefProfile::AeadAes128Gcm),
        _ => None,
    }
}
pub fn salt_len(p: &str) -> usize { if p == "gcm" { 12 } else { 14 } }
pub fn tag_len(p: &str) -> usize { match p { "cm32" => 4, "gcm" => 16, _ => 10 } }
pub fn rtcp_tag_len(p: &str) -> usize { match p { "gcm" => 16, _ => 10 } }

pub fn show_bytes(b: &[u8]) -> String {
    if b.len() <= 48 { hex(b) } else {
        let d = Sha1::digest(b);
        format!("#{}:{}", b.len(), hex(&d[..8]))
    }
}

/// plain description of an RTP packet (the `pr` token)
#[derive(Clone, Debug, PartialEq)]
pub struct PktSpec {
    pub marker: bool, pub pt: u8, pub seq: u16, pub ts: u32, pub ssrc: u32,
    pub csrcs: Vec<u32>, pub ext: Option<(u16, Vec<u8>)>, pub payload: PayloadSpec, pub pad: u8,
}
#[derive(Clone, Debug, PartialEq)]
pub enum PayloadSpec { Lit(Vec<u8>), Gen(usize, u8) }
impl PayloadSpec {
    pub fn bytes(&self) -> Vec<u8> {
        match self {
            PayloadSpec::Lit(b) => b.clone(),
            PayloadSpec::Gen(l, a) => (0..*l).map(|i| (*a as usize + 13 * i + i / 256) as u8).collect(),
        }
    }
    pub fn text(&self) -> String {
        match self { PayloadSpec::Lit(b) => hex(b), PayloadSpec::Gen(l, a) => format!("g{l}:{a}") }
    }
    pub fn parse(s: &str) -> Self {
        if let Some(r) = s.strip_prefix('g') {
            let (l, a) = r.split_once(':').unwrap();
            PayloadSpec::Gen(l.parse().unwrap(), a.parse().unwrap())
        } else { PayloadSpec::Lit(unhex(s)) }
    }
}
impl PktSpec {
    pub fn simple(seq: u16, ssrc: u32, payload: Vec<u8>) -> Self {
        PktSpec { marker: false, pt: 96, seq, ts: 1000 + seq as u32 * 160, ssrc, csrcs: vec![], ext: None, payload: PayloadSpec::Lit(payload), pad: 0 }
    }
    pub fn packet(&self) -> RtpPacket {
        let mut h = RtpHeader::new(self.pt, self.seq, self.ts, self.ssrc);
        h.marker = self.marker;
        h.csrcs = self.csrcs.clone();
        h.extension = self.ext.as_ref().map(|(p, d)| RtpHeaderExtension::new(*p, d.clone()));
        let mut p = RtpPacket::new(h, self.payload.bytes());
        p.padding_len = self.pad;
        p
    }
    pub fn text(&self) -> String {
        let cs: Vec<u8> = self.csrcs.iter().flat_map(|c| c.to_be_bytes()).collect();
        format!("{},{},{},{},{},{},{},{},{}", self.marker as u8, self.pt, self.seq, self.ts, self.ssrc, hex(&cs),
            match &self.ext { None => "-".into(), Some((p, d)) => format!("{p}:{}", hex(d)) }, self.payload.text(), self.pad)
    }
    pub fn parse(f: &[&str]) -> Self {
        let cs = unhex(f[5]);
        PktSpec { marker: f[0] == "1", pt: f[1].parse().unwrap(), seq: f[2].parse().unwrap(), ts: f[3].parse().unwrap(),
            ssrc: f[4].parse().unwrap(), csrcs: cs.chunks(4).filter(|c| c.len() == 4).map(|c| u32::from_be_bytes([c[0], c[1], c[2], c[3]])).collect(),
            ext: if f[6] == "-" { None } else { let (p, d) = f[6].split_once(':').unwrap(); Some((p.parse().unwrap(), unhex(d))) },
            payload: PayloadSpec::parse(f[7]), pad: f[8].parse().unwrap() }
    }
}

#[derive(Clone, Debug, PartialEq)]
pub enum Mut { Flip(usize), Trunc(usize), Seq(u16), Ssrc(u32), RtcpSsrc(u32), Append(Vec<u8>), Xor(usize, u8) }
impl Mut {
    pub fn text(&self) -> String {
        match self {
            Mut::Flip(i) => format!("f{i}"), Mut::Trunc(n) => format!("t{n}"), Mut::Seq(s) => format!("q{s}"),
            Mut::Ssrc(s) => format!("s{s}"), Mut::RtcpSsrc(s) => format!("c{s}"), Mut::Append(b) => format!("a{}", hex(b)),
            Mut::Xor(p, v) => format!("x{p}:{v}"),
        }
    }
    pub fn parse(s: &str) -> Self {
        let a = &s[1..];
        match &s[..1] {
            "f" => Mut::Flip(a.parse().unwrap()), "t" => Mut::Trunc(a.parse().unwrap()), "q" => Mut::Seq(a.parse().unwrap()),
            "s" => Mut::Ssrc(a.parse().unwrap()), "c" => Mut::RtcpSsrc(a.parse().unwrap()), "a" => Mut::Append(unhex(a)),
            "x" => { let (p, v) = a.split_once(':').unwrap(); Mut::Xor(p.parse().unwrap(), v.parse().unwrap()) }
            x => panic!("bad mutation {x}"),
        }
    }
    pub fn apply(&self, b: &[u8]) -> Vec<u8> {
        let mut o = b.to_vec();
        let set = |o: &mut Vec<u8>, at: usize, v: &[u8]| { if at + v.len() <= o.len() { o[at..at + v.len()].copy_from_slice(v); } };
        match self {
            Mut::Flip(i) => { if i / 8 < o.len() { o[i / 8] ^= 0x80 >> (i % 8); } }
            Mut::Trunc(n) => o.truncate(*n),
            Mut::Seq(s) => set(&mut o, 2, &s.to_be_bytes()),
            Mut::Ssrc(s) => set(&mut o, 8, &s.to_be_bytes()),
            Mut::RtcpSsrc(s) => set(&mut o, 4, &s.to_be_bytes()),
            Mut::Append(b) => o.extend_from_slice(b),
            Mut::Xor(p, v) => { if *p < o.len() { o[*p] ^= v; } }
        }
        o
    }
}

#[derive(Clone, Debug, PartialEq)]
pub enum Src { Lit(Vec<u8>), Slot(usize), Mutated(usize, Mut) }
impl Src {
    pub fn text(&self) -> String {
        match self { Src::Lit(b) => format!("l,{}", hex(b)), Src::Slot(k) => format!("k,{k}"), Src::Mutated(k, m) => format!("m,{k},{}", m.text()) }
    }
    fn parse(f: &[&str]) -> Self {
        match f[0] { "l" => Src::Lit(unhex(f[1])), "k" => Src::Slot(f[1].parse().unwrap()), "m" => Src::Mutated(f[1].parse().unwrap(), Mut::parse(f[2])), x => panic!("bad src {x}") }
    }
}

#[derive(Clone, Debug, PartialEq)]
pub enum Op {
    New(String, Vec<u8>, Vec<u8>, Vec<u8>, Vec<u8>),
    Tick(u64),
    ProtectRtp(usize, PktSpec),
    UnprotectRtp(usize, Src),
    ProtectRtcp(usize, Src),
    UnprotectRtcp(usize, Src),
    Snap(usize),
    /// an independent sender (`ref3711`) holding session `.0`'s tx keys protects an RTP packet under ROC `.1`
    ExtRtp(usize, u32, PktSpec),
    /// … protects an RTCP packet with E flag `.1` and SRTCP index `.2`
    ExtRtcp(usize, bool, u32, Vec<u8>),
    /// … protects raw plaintext RTP bytes (lets the P bit disagree with the padding) under ROC `.1`
    ExtRaw(usize, u32, Vec<u8>),
    /// `.3` streams (SSRC `.2`, `.2`+1, …) send one packet each from session `.0` to session `.1`
    Fill(usize, usize, u32, u32),
    /// preset `(roc, last_seq, rtcp_index)` of an existing tx (`true`) / rx context of a session
    SetState(usize, bool, u32, u32, Option<u16>, u32),
}
impl Op {
    pub fn text(&self) -> String {
        match self {
            Op::New(p, a, b, c, d) => format!("n,{p},{},{},{},{}", hex(a), hex(b), hex(c), hex(d)),
            Op::Tick(s) => format!("t,{s}"),
            Op::ProtectRtp(s, p) => format!("pr,{s},{}", p.text()),
            Op::UnprotectRtp(s, src) => format!("ur,{s},{}", src.text()),
            Op::ProtectRtcp(s, src) => format!("pc,{s},{}", src.text()),
            Op::UnprotectRtcp(s, src) => format!("uc,{s},{}", src.text()),
            Op::Snap(s) => format!("sn,{s}"),
            Op::ExtRtp(s, roc, p) => format!("xr,{s},{roc},{}", p.text()),
            Op::ExtRtcp(s, e, idx, b) => format!("xc,{s},{},{idx},{}", *e as u8, hex(b)),
            Op::ExtRaw(s, roc, b) => format!("xp,{s},{roc},{}", hex(b)),
            Op::Fill(s, r, first, count) => format!("fl,{s},{r},{first},{count}"),
            Op::SetState(s, tx, ssrc, roc, last, idx) => format!("st,{s},{},{ssrc},{roc},{},{idx}", if *tx { "t" } else { "r" },
                last.map(|x| x.to_string()).unwrap_or("-".into())),
        }
    }
    pub fn parse(t: &str) -> Op {
        let f: Vec<&str> = t.split(',').collect();
        let n = |i: usize| f[i].parse::<usize>().unwrap();
        match f[0] {
            "n" => Op::New(f[1].into(), unhex(f[2]), unhex(f[3]), unhex(f[4]), unhex(f[5])),
            "t" => Op::Tick(f[1].parse().unwrap()),
            "pr" => Op::ProtectRtp(n(1), PktSpec::parse(&f[2..])),
            "ur" => Op::UnprotectRtp(n(1), Src::parse(&f[2..])),
            "pc" => Op::ProtectRtcp(n(1), Src::parse(&f[2..])),
            "uc" => Op::UnprotectRtcp(n(1), Src::parse(&f[2..])),
            "sn" => Op::Snap(n(1)),
            "xr" => Op::ExtRtp(n(1), f[2].parse().unwrap(), PktSpec::parse(&f[3..])),
            "fl" => Op::Fill(n(1), n(2), f[3].parse().unwrap(), f[4].parse().unwrap()),
            "xp" => Op::ExtRaw(n(1), f[2].parse().unwrap(), unhex(f[3])),
            "xc" => Op::ExtRtcp(n(1), f[2] == "1", f[3].parse().unwrap(), unhex(f[4])),
            "st" => Op::SetState(n(1), f[2] == "t", f[3].parse().unwrap(), f[4].parse().unwrap(),
                if f[5] == "-" { None } else { Some(f[5].parse().unwrap()) }, f[6].parse().unwrap()),
            x => panic!("bad op {x}"),
        }
    }
}
pub fn script_text(ops: &[Op]) -> String { ops.iter().map(|o| o.text()).collect::<Vec<_>>().join(" ") }
pub fn parse_script(s: &str) -> Vec<Op> { s.split_whitespace().map(Op::parse).collect() }

/// result of one operation on the implementation
#[derive(Clone, Debug, PartialEq)]
pub enum Res {
    None,
    Bytes(Vec<u8>),                 // protect output
    Rtp(RtpPacket),                 // unprotect RTP ok
    Rtcp(Vec<u8>),                  // unprotect RTCP ok
    Err(&'static str),              // e:… / pe:…
    Snap(Vec<(u32, u32, Option<u16>, u32)>, Vec<(u32, u32, Option<u16>, u32)>),
    Fill(u32),
}
impl Res {
    pub fn is_ok(&self) -> bool { matches!(self, Res::Bytes(_) | Res::Rtp(_) | Res::Rtcp(_)) }
    pub fn text(&self) -> String {
        match self {
            Res::None => "-".into(),
            Res::Bytes(b) => show_bytes(b),
            Res::Rtp(p) => format!("ok:{}", show_bytes(&p.marshal().unwrap_or_default())),
            Res::Rtcp(b) => format!("ok:{}", show_bytes(b)),
            Res::Err(e) => (*e).into(),
            Res::Fill(n) => format!("ok{n}"),
            Res::Snap(rx, tx) => {
                let t = |v: &Vec<(u32, u32, Option<u16>, u32)>| v.iter().map(|(s, r, l, i)|
                    format!("{s}:{r}:{}:{i}", l.map(|x| x.to_string()).unwrap_or("-".into()))).collect::<Vec<_>>().join(";");
                format!("rx[{}]tx[{}]", t(rx), t(tx))
            }
        }
    }
}

pub fn srtp_err(e: &rustrtc::errors::SrtpError) -> &'static str {
    use rustrtc::errors::SrtpError::*;
    match e { UnsupportedProfile => "e:prof", PacketTooShort => "e:short", AuthenticationFailed => "e:auth", Internal(_) => "e:int" }
}
pub fn rtp_err(e: &rustrtc::errors::RtpError) -> &'static str {
    match e { rustrtc::errors::RtpError::PacketTooShort => "pe:short", rustrtc::errors::RtpError::UnsupportedVersion(_) => "pe:ver", _ => "pe:other" }
}

/// `webrtc-srtp` shadow of one session (encrypt context on the tx keys, decrypt on the rx keys)
pub struct Shadow { pub enc: RefCtx, pub dec: RefCtx }

pub struct World {
    pub sess: Vec<SrtpSession>,
    pub prof: Vec<String>,
    /// (tx master key, tx master salt, rx master key, rx master salt) per session
    pub keys: Vec<(Vec<u8>, Vec<u8>, Vec<u8>, Vec<u8>)>,
    pub shadow: Vec<Option<Shadow>>,
    /// protect outputs (empty on failure) and, for RTP, the packet that was protected
    pub slots: Vec<Vec<u8>>,
    pub slot_pkt: Vec<Option<RtpPacket>>,
    pub slot_plain: Vec<Vec<u8>>,
    /// whether the slot holds a protected RTCP (true) or RTP packet
    pub slot_rtcp: Vec<bool>,
    pub three_way: bool,
    pub fill_result: String,
    /// disagreements with the reference implementation: (signature, detail)
    pub interop: Vec<(String, String)>,
}

impl World {
    pub fn new(three_way: bool) -> Self {
        World { sess: vec![], prof: vec![], keys: vec![], shadow: vec![], slots: vec![], slot_pkt: vec![], slot_plain: vec![], slot_rtcp: vec![], fill_result: String::new(), three_way, interop: vec![] }
    }
    pub fn input(&self, src: &Src) -> Vec<u8> {
        match src { Src::Lit(b) => b.clone(), Src::Slot(k) => self.slots[*k].clone(), Src::Mutated(k, m) => m.apply(&self.slots[*k]) }
    }
    /// `mirror`: also run the operation on the `webrtc-srtp` shadow (three-way cases only)
    pub fn exec(&mut self, op: &Op, mirror: bool) -> Res {
        match op {
            Op::New(p, a, b, c, d) => {
                let s = SrtpSession::new(profile_of(p), SrtpKeyingMaterial::new(a.clone(), b.clone()), SrtpKeyingMaterial::new(c.clone(), d.clone())).unwrap();
                self.sess.push(s);
                self.prof.push(p.clone());
                self.keys.push((a.clone(), b.clone(), c.clone(), d.clone()));
                let sh = if self.three_way { ref_profile_of(p).and_then(|rp| {
                    let enc = RefCtx::new(a, b, rp, None, None).ok()?;
                    let dec = RefCtx::new(c, d, rp, None, None).ok()?;
                    Some(Shadow { enc, dec }) }) } else { None };
                self.shadow.push(sh);
                Res::Err("ok")
            }
            Op::Tick(secs) => {
                for s in self.sess.iter_mut() { s.verif_advance_clock(std::time::Duration::from_secs(*secs)); }
                Res::None
            }
            Op::ProtectRtp(i, spec) => {
                let pkt = spec.packet();
                let s = &mut self.sess[*i];
                let mut out = vec![0u8; s.protected_rtp_len(&pkt)];
                let r = s.protect_rtp(&pkt, &mut out);
                let plain = pkt.marshal().unwrap_or_default();
                let res = match r { Ok(()) => Res::Bytes(out.clone()), Err(e) => { out.clear(); Res::Err(srtp_err(&e)) } };
                if let (Some(sh), true) = (self.shadow[*i].as_mut(), res.is_ok() && mirror) {
                    match sh.enc.encrypt_rtp(&plain) {
                        Ok(b) => if b[..] != out[..] { self.interop.push((format!("interop:rtp-protect-bytes-differ:{}", self.prof[*i]), format!("ours {} ref {}", hex(&out), hex(&b)))); },
                        Err(e) => self.interop.push((format!("interop:ref-cannot-protect-rtp:{}", self.prof[*i]), format!("{e}"))),
                    }
                }
                self.slots.push(out);
                self.slot_pkt.push(Some(pkt));
                self.slot_plain.push(plain);
                self.slot_rtcp.push(false);
                res
            }
            Op::UnprotectRtp(i, src) => {
                let raw = self.input(src);
                let res = match SrtpPacket::parse(BytesMut::from(&raw[..])) {
                    Err(e) => Res::Err(rtp_err(&e)),
                    Ok(p) => match self.sess[*i].unprotect_rtp(p) { Ok(p) => Res::Rtp(p), Err(e) => Res::Err(srtp_err(&e)) },
                };
                if let (Some(sh), true) = (self.shadow[*i].as_mut(), mirror) {
                    let r = sh.dec.decrypt_rtp(&raw);
                    match (&res, r) {
                        (Res::Rtp(p), Ok(b)) => {
                            let ours = p.marshal().unwrap_or_default();
                            let n = ours.len() - p.padding_len as usize;
                            if b.len() != ours.len() || b[..n] != ours[..n] || (p.padding_len != 0 && b[b.len() - 1] != p.padding_len) {
                                self.interop.push((format!("interop:rtp-unprotect-result-differs:{}", self.prof[*i]), format!("ours {} ref {}", hex(&ours), hex(&b))));
                            }
                        }
                        (Res::Rtp(_), Err(e)) => self.interop.push((format!("interop:ref-rejects-rtp-we-accept:{}", self.prof[*i]), format!("{e} on {}", hex(&raw)))),
                        (Res::Err(e), Ok(_)) => self.interop.push((format!("interop:we-reject-rtp-ref-accepts:{}", self.prof[*i]), format!("{e} on {}", hex(&raw)))),
                        _ => {}
                    }
                }
                res
            }
            Op::ProtectRtcp(i, src) => {
                let raw = self.input(src);
                let mut buf = raw.clone();
                let res = match self.sess[*i].protect_rtcp(&mut buf) { Ok(()) => Res::Bytes(buf.clone()), Err(e) => { buf.clear(); Res::Err(srtp_err(&e)) } };
                if let (Some(sh), true) = (self.shadow[*i].as_mut(), res.is_ok() && mirror) {
                    match sh.enc.encrypt_rtcp(&raw) {
                        Ok(b) => if b[..] != buf[..] { self.interop.push((format!("interop:rtcp-protect-bytes-differ:{}", self.prof[*i]), format!("ours {} ref {}", hex(&buf), hex(&b)))); },
                        Err(e) => self.interop.push((format!("interop:ref-cannot-protect-rtcp:{}", self.prof[*i]), format!("{e}"))),
                    }
                }
                self.slots.push(buf);
                self.slot_pkt.push(None);
                self.slot_plain.push(raw);
                self.slot_rtcp.push(true);
                res
            }
            Op::UnprotectRtcp(i, src) => {
                let raw = self.input(src);
                let mut buf = raw.clone();
                let res = match self.sess[*i].unprotect_rtcp(&mut buf) { Ok(()) => Res::Rtcp(buf), Err(e) => Res::Err(srtp_err(&e)) };
                if let (Some(sh), true) = (self.shadow[*i].as_mut(), mirror) {
                    let r = if raw.len() >= 12 { sh.dec.decrypt_rtcp(&raw).map_err(|e| e.to_string()) } else { Err("short".into()) };
                    match (&res, r) {
                        (Res::Rtcp(o), Ok(b)) => if b[..] != o[..] { self.interop.push((format!("interop:rtcp-unprotect-result-differs:{}", self.prof[*i]), format!("ours {} ref {}", hex(o), hex(&b)))); },
                        (Res::Rtcp(_), Err(e)) => self.interop.push((format!("interop:ref-rejects-rtcp-we-accept:{}", self.prof[*i]), format!("{e} on {}", hex(&raw)))),
                        (Res::Err(e), Ok(_)) => self.interop.push((format!("interop:we-reject-rtcp-ref-accepts:{}", self.prof[*i]), format!("{e} on {}", hex(&raw)))),
                        _ => {}
                    }
                }
                res
            }
            Op::Snap(i) => Res::Snap(self.sess[*i].verif_rx_snapshot(), self.sess[*i].verif_tx_snapshot()),
            Op::ExtRtp(i, roc, spec) => {
                let pkt = spec.packet();
                let plain = pkt.marshal().unwrap_or_default();
                let (mk, ms) = (&self.keys[*i].0, &self.keys[*i].1);
                let usable = mk.len() >= 16 && ms.len() >= salt_len(&self.prof[*i]) && !plain.is_empty();
                let out = if usable { super::ref3711::protect_rtp(&self.prof[*i], mk, ms, &plain, *roc) } else { vec![] };
                let res = if usable { Res::Bytes(out.clone()) } else { Res::Err(if plain.is_empty() { "e:int" } else { "e:prof" }) };
                self.slots.push(out);
                self.slot_pkt.push(if usable { Some(pkt) } else { None });
                self.slot_plain.push(plain);
                self.slot_rtcp.push(false);
                res
            }
            Op::Fill(i, j, first, count) => {
                let mut acc = 0u32;
                for k in 0..*count {
                    let pkt = PktSpec::simple(1, first + k, vec![k as u8]);
                    let mut pkt = pkt; pkt.ts = 0;
                    let p = pkt.packet();
                    let mut out = vec![0u8; self.sess[*i].protected_rtp_len(&p)];
                    if self.sess[*i].protect_rtp(&p, &mut out).is_err() { continue; }
                    if let Ok(sp) = SrtpPacket::parse(BytesMut::from(&out[..])) {
                        if self.sess[*j].unprotect_rtp(sp).is_ok() { acc += 1; }
                    }
                }
                self.fill_result = format!("ok{acc}");
                Res::Fill(acc)
            }
            Op::ExtRaw(i, roc, plain) => {
                let (mk, ms) = (&self.keys[*i].0, &self.keys[*i].1);
                let parses = rustrtc::rtp::RtpHeader::parse(&mut &plain[..]).is_ok();
                let usable = mk.len() >= 16 && ms.len() >= salt_len(&self.prof[*i]) && parses;
                let out = if usable { super::ref3711::protect_rtp(&self.prof[*i], mk, ms, plain, *roc) } else { vec![] };
                let res = if usable { Res::Bytes(out.clone()) } else { Res::Err("e:int") };
                self.slots.push(out);
                self.slot_pkt.push(None);
                self.slot_plain.push(plain.clone());
                self.slot_rtcp.push(false);
                res
            }
            Op::ExtRtcp(i, e, idx, raw) => {
                let (mk, ms) = (&self.keys[*i].0, &self.keys[*i].1);
                let usable = mk.len() >= 16 && ms.len() >= salt_len(&self.prof[*i]) && raw.len() >= 8;
                let out = if usable { super::ref3711::protect_rtcp(&self.prof[*i], mk, ms, raw, *idx, *e) } else { vec![] };
                let res = if usable { Res::Bytes(out.clone()) } else { Res::Err(if raw.len() < 8 { "e:short" } else { "e:prof" }) };
                self.slots.push(out);
                self.slot_pkt.push(None);
                self.slot_plain.push(raw.clone());
                self.slot_rtcp.push(true);
                res
            }
            Op::SetState(i, tx, ssrc, roc, last, idx) => {
                let ok = self.sess[*i].verif_set_ctx_state(*tx, *ssrc, *roc, *last, *idx);
                Res::Err(if ok { "1" } else { "0" })
            }
        }
    }
}

/// run a whole script; returns the per-op results
pub fn run_script(ops: &[Op], three_way: bool) -> (Vec<Res>, World) {
    let mut w = World::new(three_way);
    let res = ops.iter().map(|o| w.exec(o, three_way)).collect();
    (res, w)
}
pub fn results_text(res: &[Res]) -> String { res.iter().map(|r| r.text()).collect::<Vec<_>>().join(" ") }
