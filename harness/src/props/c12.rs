//! C12 — message boundaries, channel and delivery mode; Open once before the first message, Close
//! at most once; DCEP parameters.
//! (a) function level: `DataChannelOpen::{marshal,unmarshal}` and the channel-type mapping against
//!     the Lean DCEP model (valid, malformed and truncated inputs);
//! (b) live runs (hook H1): 1–6 channels of every kind (reliable / max-retransmits / lifetime x
//!     ordered / unordered, pre-negotiated or opened in-band), sizes 0–64 KiB, several concurrent
//!     sender tasks per side, fault scripts; each endpoint trace replayed through the Lean endpoint
//!     model; oracles on the implementation: every delivered message is exactly one submitted message
//!     of that channel (no merge / split / fabrication / duplication / cross-channel delivery), ordered
//!     channels in order, reliable channels complete, Open exactly once and first, Close at most once,
//!     in-band channels appear with the creator's label / protocol / ordering / reliability.
use crate::props::c01::link::*;
use crate::props::c01::{case_text, payload, replay_lines};
use crate::{Args, Rng, Run, hex};
use bytes::Bytes;
use rustrtc::transports::sctp::{DataChannelEvent, DataChannelOpen, SctpState};
use rustrtc::verif_hooks::sctp as hook;
use std::time::Duration;

// ------------------------------------------------------------------------------------------
// (a) DCEP codec

fn open_text(o: &DataChannelOpen) -> String {
    format!("{},{},{},{},{}", o.channel_type, o.priority, o.reliability_parameter, hex(o.label.as_bytes()), hex(o.protocol.as_bytes()))
}

fn dcep_cases(run: &mut Run, rng: &mut Rng, thorough: bool) {
    let labels = ["", "a", "chat", "é", "日本語ラベル", "x\u{10FFFF}y", "label with spaces and \u{0}"];
    let n = if thorough { 6000 } else { 1200 };
    for k in 0..n {
        let label = if k % 7 == 0 { "L".repeat(rng.range(0, 300) as usize) } else { labels[rng.below(labels.len() as u64) as usize].to_string() };
        let proto = if rng.chance(1, 3) { labels[rng.below(labels.len() as u64) as usize].to_string() } else { String::new() };
        let o = DataChannelOpen { message_type: 3, channel_type: *rng.pick(&[0u8, 1, 2, 0x80, 0x81, 0x82, 3, 0xFF]), priority: rng.next() as u16,
            reliability_parameter: *rng.pick(&[0u32, 1, 3, 65535, 65536, 0xFFFF_FFFF]), label, protocol: proto };
        let bytes = o.marshal();
        run.case("dcep", &format!("m,{}", open_text(&o)), &hex(&bytes), true);
        // round trip on the implementation
        match DataChannelOpen::unmarshal(&bytes) {
            Ok(r) => if open_text(&r) != open_text(&o) { run.fail("dcep:roundtrip-differs", &format!("dcep m,{}", open_text(&o)), &open_text(&r)); },
            Err(e) => run.fail("dcep:roundtrip-rejected", &format!("dcep m,{}", open_text(&o)), &e.to_string()),
        }
        // malformed variants of the same message
        let mut variants: Vec<Vec<u8>> = vec![bytes.clone()];
        if !bytes.is_empty() { variants.push(bytes[..rng.below(bytes.len() as u64) as usize].to_vec()); }
        let mut b2 = bytes.clone(); if b2.len() > 12 { let i = 12 + rng.below((b2.len() - 12) as u64) as usize; b2[i] = *rng.pick(&[0x80u8, 0xC0, 0xE0, 0xF5, 0xFF, 0xED]); } variants.push(b2);
        let mut b3 = bytes.clone(); if b3.len() >= 12 { b3[8] = rng.next() as u8; b3[9] = rng.next() as u8; } variants.push(b3);
        let mut b4 = bytes.clone(); b4.extend_from_slice(&rng.bytes(3)); variants.push(b4);
        let mut b5 = bytes.clone(); if !b5.is_empty() { b5[0] = *rng.pick(&[2u8, 3, 0]); } variants.push(b5);
        for v in variants {
            let out = match crate::catch(|| DataChannelOpen::unmarshal(&v)) {
                Ok(Ok(r)) => { run.count("dcep_unmarshal_ok"); open_text(&r) }
                Ok(Err(_)) => { run.count("dcep_unmarshal_err"); "err".to_string() }
                Err(p) => { run.fail("dcep:unmarshal-panics", &format!("dcep u,{}", hex(&v)), &p); "panic".to_string() }
            };
            run.case("dcep", &format!("u,{}", hex(&v)), &out, out != "err");
        }
    }
    run.count_n("dcep_messages", n as u64);
}

// ------------------------------------------------------------------------------------------
// (b) live runs

#[derive(Clone, Copy, PartialEq)]
enum Kind { RelOrd, RelUnord, RexOrd, RexUnord, TimedOrd, TimedUnord }
const KINDS: [Kind; 6] = [Kind::RelOrd, Kind::RelUnord, Kind::RexOrd, Kind::RexUnord, Kind::TimedOrd, Kind::TimedUnord];

fn spec(id: u16, k: Kind, negotiated: bool, rex: u16) -> ChanSpec {
    let mut s = ChanSpec::reliable(id);
    s.negotiated = negotiated;
    s.label = format!("ch-{id}-é");
    s.protocol = if id % 2 == 0 { "proto".into() } else { String::new() };
    match k {
        Kind::RelOrd => {}
        Kind::RelUnord => s.ordered = false,
        Kind::RexOrd => s.max_retransmits = Some(rex),
        Kind::RexUnord => { s.ordered = false; s.max_retransmits = Some(rex); }
        Kind::TimedOrd => s.max_lifetime = Some(2000),
        Kind::TimedUnord => { s.ordered = false; s.max_lifetime = Some(2000); }
    }
    s
}

struct C12Case { name: String, case: Case, multi_thread: bool }

fn mk(name: &str, chans_a: Vec<ChanSpec>, chans_b: Vec<ChanSpec>, plan: &[(usize, u16, usize, u8)], faults: &str, seeds: (Option<u32>, Option<u32>), closes: Vec<(usize, u16)>, mt: bool) -> C12Case {
    let mut cfg = [EpCfg::default(), EpCfg::default()];
    cfg[0].seed_tsn = seeds.0; cfg[1].seed_tsn = seeds.1;
    let mut idx = std::collections::HashMap::new();
    let msgs = plan.iter().map(|(side, chan, len, task)| { let i = idx.entry((*side, *chan)).or_insert(0usize); let d = payload(*side, *chan, *i, *len); *i += 1;
        Msg { side: *side, chan: *chan, data: d, phase: 0, task: *task } }).collect();
    C12Case { name: name.into(), case: Case { cfg, chans: [chans_a, chans_b], msgs, faults: faults_parse(faults), deadline: Duration::from_secs(10),
        settle: Duration::from_millis(80), closes, end: End::None }, multi_thread: mt }
}

fn cases(args: &Args, rng: &mut Rng) -> Vec<C12Case> {
    let mut v = vec![];
    let sizes = [0usize, 1, 1172, 1173, 3000, 20_000, 65_536];
    // every kind, pre-negotiated and in-band, clean and with one loss; reliable kinds in both directions
    for (ki, k) in KINDS.iter().enumerate() {
        for negotiated in [true, false] {
            let id = 2 * ki as u16 + 2;
            let a = vec![spec(id, *k, negotiated, 5)];
            let b = if negotiated { a.clone() } else { vec![] };
            let mut plan: Vec<(usize, u16, usize, u8)> = sizes.iter().map(|s| (0usize, id, *s, 0u8)).collect();
            plan.extend([(1usize, id, 10usize, 0u8), (1, id, 2000, 0), (1, id, 0, 0)]);
            v.push(mk(&format!("kind{ki}-{}", if negotiated { "neg" } else { "dcep" }), a.clone(), b.clone(), &plan, "-", (None, None), vec![], false));
            v.push(mk(&format!("kind{ki}-{}-loss", if negotiated { "neg" } else { "dcep" }), a, b, &plan, "A.DATA.3.drop+B.DATA.1.dup+B.SACK.2.drop", (Some(0xFFFF_FFF0), None), vec![(0, id)], false));
        }
    }
    // several channels, concurrent sender tasks, faults on setup chunks
    for (i, f) in ["-", "B.COOKIEACK.1.drop", "A.INIT.1.late4+B.INITACK.1.dup", "A.COOKIEECHO.1.dup+A.DATA.2.delay3", "A.DATA.1.drop+A.DATA.4.drop+B.SACK.1.drop", "A.INIT.1.dup", "A.INIT.1.dup+A.COOKIEECHO.1.late3"].iter().enumerate() {
        let a = vec![spec(1, Kind::RelOrd, true, 0), spec(2, Kind::RelUnord, false, 0), spec(4, Kind::RelOrd, false, 0), spec(3, Kind::RelUnord, true, 0)];
        let b = vec![spec(1, Kind::RelOrd, true, 0), spec(3, Kind::RelUnord, true, 0)];
        let mut plan = vec![];
        for t in 0..4u8 { for j in 0..6usize { plan.push((0usize, [1u16, 2, 4, 3][(t as usize + j) % 4], [5usize, 1300, 4, 4000, 70, 2500][(j + t as usize) % 6], t)); } }
        for t in 0..2u8 { for j in 0..5usize { plan.push((1usize, [1u16, 3, 2, 4][(t as usize + j) % 4], [9usize, 1500, 6, 200, 3500][j % 5], t)); } }
        v.push(mk(&format!("multi{i}"), a.clone(), b.clone(), &plan, f, (None, Some(0xFFFF_FFFB)), vec![], false));
        if i < 2 { v.push(mk(&format!("multi{i}-mt"), a, b, &plan, f, (None, None), vec![], true)); }
    }
    // one channel is closed in the middle of the run (RE-CONFIG outgoing SSN reset naming ONE stream — an odd count, so the
    // parameter carries two pad bytes) while the other channels — stream id 0 included, ids of both parities, ordered and
    // unordered — keep carrying traffic in both directions: the survivors deliver everything, in order
    for (i, (closer, closed)) in [(1usize, 3u16), (0, 2), (1, 1), (0, 0), (1, 2)].iter().enumerate() {
        let ch = vec![spec(0, Kind::RelOrd, true, 0), spec(1, Kind::RelOrd, true, 0), spec(2, Kind::RelOrd, i % 2 == 0, 0), spec(3, Kind::RelUnord, true, 0)];
        let chb: Vec<ChanSpec> = ch.iter().filter(|c| c.negotiated).cloned().collect();
        let mut plan = vec![];
        for side in 0..2usize { for id in 0..4u16 { plan.push((side, id, 40 + 10 * id as usize + side, 0u8)); plan.push((side, id, 1500 + id as usize, 0)); } }
        let n0 = plan.len();
        for side in 0..2usize { for id in 0..4u16 { if id != *closed { plan.push((side, id, 60 + id as usize + 5 * side, 0u8)); plan.push((side, id, 2500, 0)); plan.push((side, id, 7 + side, 0)); } } }
        let f = if i == 4 { "A.DATA.3.drop+B.SACK.2.drop" } else { "-" };
        let mut c = mk(&format!("close-one-channel-midway{i}"), ch, chb, &plan, f, (if i == 1 { Some(0xFFFF_FFF5) } else { None }, None), vec![(*closer + 2, *closed)], false);
        for m in c.case.msgs.iter_mut().skip(n0) { m.phase = 1; }
        v.push(c);
    }
    // flow control: send buffers (sctp_max_buffered_amount) far smaller than the workload, several tasks and channels;
    // and a DCEP OPEN / ACK that has to be sent by the run loop while the send buffer is over its limit (the run loop
    // must not park in the senders' wait: nobody else processes the SACKs that free the credit)
    for (i, f) in ["-", "A.DATA.2.drop+B.SACK.3.drop"].iter().enumerate() {
        let a = vec![spec(1, Kind::RelOrd, true, 0), spec(2, Kind::RelUnord, false, 0)];
        let b = vec![spec(1, Kind::RelOrd, true, 0)];
        let mut plan = vec![];
        for t in 0..2u8 { for j in 0..5usize { plan.push((0usize, [1u16, 2][(t as usize + j) % 2], [6000usize, 3000, 9000][j % 3], t)); } }
        for j in 0..4usize { plan.push((1usize, 1u16, 7000, 0u8)); let _ = j; }
        let mut c = mk(&format!("flow-control{i}"), a, b, &plan, f, (None, None), vec![], false);
        for e in c.case.cfg.iter_mut() { e.max_buffered = 8000; }
        v.push(c);
    }
    for d in [2u32, 5, 10] {
        let mut c = mk(&format!("dcep-ack-with-full-send-buffer-d{d}"), vec![spec(2, Kind::RelOrd, false, 0), spec(1, Kind::RelOrd, true, 0)], vec![spec(1, Kind::RelOrd, true, 0)],
            &[(1, 1, 20_000, 0), (1, 1, 20_000, 0), (1, 1, 20_000, 0), (1, 1, 20_000, 0), (0, 2, 100, 0)], &format!("A.DATA.1.delay{d}"), (None, None), vec![], false);
        for e in c.case.cfg.iter_mut() { e.max_buffered = 6000; }
        v.push(c);
    }
    // an impatient application: send() from the first moment on, before the association / the in-band channel is open
    // (task ids ≥ 200 do not wait for Open); whatever send() accepted on a reliable channel has to arrive
    for (i, f) in ["-", "B.INITACK.1.drop", "B.COOKIEACK.1.drop", "A.DATA.1.drop"].iter().enumerate() {
        let a = vec![spec(2, Kind::RelOrd, false, 0), spec(1, Kind::RelOrd, true, 0)];
        let b = vec![spec(1, Kind::RelOrd, true, 0)];
        let plan = [(0usize, 2u16, 100usize, 200u8), (0, 2, 3000, 200), (0, 2, 7, 200), (0, 1, 50, 201), (0, 1, 60, 201), (1, 1, 9, 200)];
        v.push(mk(&format!("send-before-open{i}"), a, b, &plan, f, (None, None), vec![], false));
    }
    // Z1: a partially reliable sibling, a receive window of two chunks and ONE lost SACK (the window update): once the abandoned
    // records are gone nothing is left to time out — the reliable channel still has to get through (zero-window probe)
    for (i, f) in ["A.TSN.0.dropn1+A.FWDTSN.1.drop+B.SACK.2.drop", "A.TSN.0.dropn1+B.SACK.2.drop", "A.TSN.0.dropn1+A.FWDTSN.1.drop+B.SACK.3.drop", "A.TSN.1.dropn1+B.SACK.2.drop+B.SACK.3.drop"].iter().enumerate() {
        let ch = vec![spec(2, Kind::RexUnord, true, 0), spec(1, Kind::RelOrd, true, 0)];
        let mut c = mk(&format!("pr-sibling-closed-window-sack-lost{i}"), ch.clone(), ch, &[(0, 2, 1, 0), (0, 2, 2344, 0), (0, 1, 50, 0), (0, 1, 60, 0)], f, (Some(1000), Some(5000)), vec![], false);
        for e in c.case.cfg.iter_mut() { e.rwnd = 2368; e.max_burst = 16; }
        c.case.msgs[2].phase = 1; c.case.msgs[3].phase = 1;
        v.push(c);
    }
    // W3: an in-band PR channel whose creator sends right after creating it (eager task) and ONE lost datagram — the OPEN
    // itself or the first message right behind it: the OPEN stays reliable, the channel opens, later messages arrive
    for (i, (ord, f)) in [(true, "A.TSN.0.dropn1"), (false, "A.TSN.0.dropn1"), (true, "A.TSN.1.dropn1"), (false, "A.TSN.0.dropn1+A.TSN.1.dropn1")].iter().enumerate() {
        let mut c = mk(&format!("pr-inband-eager-one-loss{i}"), vec![spec(2, if *ord { Kind::RexOrd } else { Kind::RexUnord }, false, 0)], vec![],
            &[(0, 2, 100, 200), (0, 2, 50, 200), (0, 2, 30, 0), (0, 2, 40, 0)], f, (None, None), vec![], false);
        c.case.msgs[2].phase = 1; c.case.msgs[3].phase = 1;
        v.push(c);
    }
    // an ordered partially reliable channel whose very first message is abandoned still delivers the later ones
    // (the later ones are sent once the link is quiet again: phase 1)
    for (name, neg) in [("pr-ordered-first-message-abandoned", true), ("pr-ordered-first-message-abandoned-dcep", false)] {
        let mut c = mk(name, vec![spec(2, Kind::RexOrd, neg, 0)], if neg { vec![spec(2, Kind::RexOrd, true, 0)] } else { vec![] },
            &[(0, 2, 500, 0), (0, 2, 30, 0), (0, 2, 40, 0)], if neg { "A.TSN.0.dropn2" } else { "A.TSN.1.dropn2" }, (Some(7000), Some(100)), vec![], false);
        c.case.msgs[1].phase = 1; c.case.msgs[2].phase = 1;
        v.push(c);
    }
    // scripted datagrams from a (foreign) peer: a second DCEP ACK in a new DATA chunk (Open stays single); a FORWARD-TSN that
    // skips the middle of a message on the unordered channel 2 but names only stream 1 (nothing may be completed from the rest)
    {
        let a = vec![spec(2, Kind::RelUnord, false, 0), spec(1, Kind::RelOrd, true, 0)];
        let b = vec![spec(1, Kind::RelOrd, true, 0)];
        let mut c = mk("dcep-ack-twice", a, b, &[(0, 2, 100, 0), (0, 1, 50, 0), (1, 1, 9, 0)], "-", (None, None), vec![], false);
        c.case.end = End::Script(0, 2);
        v.push(c);
        // FORWARD-TSN with a fragment in the reassembly buffer × (receive queue empty / holding a later fragment) ×
        // (skipped TSNs received or not) × pairs (other stream / own stream / none) × unordered / ordered channel
        let ab = vec![spec(2, Kind::RexUnord, true, 0), spec(1, Kind::RexOrd, true, 0)];
        for (name, n) in [("forward-tsn-names-other-stream", 3u8), ("forward-tsn-fragment-queued-behind", 4), ("forward-tsn-skips-received-fragment", 5),
            ("forward-tsn-no-pairs", 6), ("forward-tsn-ordered-channel", 7)] {
            let mut c = mk(name, ab.clone(), ab.clone(), &[(0, 2, 100, 0), (0, 1, 50, 0), (0, 1, 60, 0)], "-", (None, if n == 5 { Some(0xFFFF_FFFA) } else { None }), vec![], false);
            c.case.end = End::Script(1, n);
            v.push(c);
        }
        // the real sender: the LAST DATA packet of a burst is lost on an unordered / ordered partially reliable channel while
        // the rest of a 6-12 fragment message is still unsent (the FORWARD-TSN then finds nothing queued behind the gap)
        for (ki, kind) in [Kind::RexUnord, Kind::RexOrd].into_iter().enumerate() {
            for mr in [0u16, 1] { for nfrag in [6usize, 9, 12] { for last in [4u32, 9] {   // a burst is 5 full fragments (4 x 1200 budget, overshoot by one)
                if last as usize >= nfrag { continue; }   // the lost packet belongs to the long message
                if !args.tier_thorough && (ki + mr as usize + nfrag + last as usize) % 2 == 1 && !(ki == 0 && last == 4) { continue; }
                let ch = vec![spec(2, kind, true, mr)];
                let mut c = mk(&format!("pr-last-of-burst-lost-k{ki}-mr{mr}-f{nfrag}-t{last}"), ch.clone(), ch, &[(0, 2, 1172 * nfrag - 7, 0), (0, 2, 33, 0), (0, 2, 44, 0)],
                    &format!("A.TSN.{last}.dropn{}", mr + 1), (Some(9000), Some(77)), vec![], false);
                c.case.msgs[1].phase = 1; c.case.msgs[2].phase = 1;
                v.push(c);
            } } }
        }
    }
    // partial reliability under loss (the code's known PR defects show up here)
    v.push(mk("pr-unordered-fragmented-loss", vec![spec(2, Kind::RexUnord, true, 0)], vec![spec(2, Kind::RexUnord, true, 0)],
        &[(0, 2, 20_000, 0), (0, 2, 30, 0), (0, 2, 40, 0)], "A.DATA.2.drop", (Some(5000), Some(1000)), vec![], false));
    v.push(mk("pr-with-reliable-sibling", vec![spec(2, Kind::RexUnord, true, 0), spec(1, Kind::RelOrd, true, 0)], vec![spec(2, Kind::RexUnord, true, 0), spec(1, Kind::RelOrd, true, 0)],
        &[(0, 2, 3000, 0), (0, 1, 50, 0), (0, 1, 60, 0)], "A.DATA.1.drop", (Some(1000), Some(5000)), vec![], false));
    // Close: the application closes a channel twice; closes then tears the association down; teardown by local close,
    // ABORT, SHUTDOWN-ACK, SHUTDOWN-COMPLETE; SHUTDOWN alone (answered, association stays)
    for (name, closes, end) in [
        ("close-twice", vec![(0usize, 1u16), (0, 1)], End::None),
        ("close-both-sides", vec![(0, 1), (1, 1), (1, 2)], End::None),
        ("close-then-local-teardown", vec![(0, 1)], End::LocalClose(0)),
        ("close-then-abort", vec![(1, 2)], End::Inject(1, 6)),
        ("teardown-local", vec![], End::LocalClose(1)),
        ("teardown-abort", vec![], End::Inject(0, 6)),
        ("teardown-shutdown-ack", vec![], End::Inject(1, 8)),
        ("teardown-shutdown-complete", vec![], End::Inject(0, 14)),
        ("shutdown-answered", vec![], End::Inject(1, 7)),
    ] {
        let mut c = mk(name, vec![spec(1, Kind::RelOrd, true, 0), spec(2, Kind::RelUnord, false, 0)], vec![spec(1, Kind::RelOrd, true, 0)],
            &[(0, 1, 50, 0), (0, 2, 1500, 0), (1, 1, 9, 0), (1, 2, 10, 0)], "-", (None, None), closes, false);
        c.case.end = end;
        v.push(c);
    }
    // in-band channels whose DCEP OPEN does not fit one DATA chunk (label + protocol >= 1161 bytes), next to a negotiated sibling
    for (i, (ll, pl)) in [(1200usize, 0usize), (1150, 0), (600, 600), (3000, 10), (20_000, 2000)].iter().enumerate() {
        let mut c = mk(&format!("dcep-long-label{i}"), vec![spec(2, Kind::RelOrd, false, 0), spec(1, Kind::RelOrd, true, 0), spec(4, Kind::RelUnord, false, 0)], vec![spec(1, Kind::RelOrd, true, 0)],
            &[(0, 1, 50, 0), (0, 2, 70, 0), (0, 1, 60, 0), (1, 2, 30, 0), (0, 4, 2000, 0), (1, 1, 9, 0)], if i % 2 == 0 { "-" } else { "A.DATA.1.drop+A.DATA.3.dup" }, (None, None), vec![], false);
        c.case.chans[0][0].label = "L".repeat(*ll);
        c.case.chans[0][0].protocol = "p".repeat(*pl);
        c.case.chans[0][2].label = format!("é{}", "x".repeat(*ll / 2));
        v.push(c);
    }
    // a label longer than the 16-bit DCEP length field (multi-byte characters: the truncated length cuts one in two)
    {
        let mut c = mk("dcep-huge-label", vec![spec(2, Kind::RelOrd, false, 0), spec(1, Kind::RelOrd, true, 0)], vec![spec(1, Kind::RelOrd, true, 0)],
            &[(0, 1, 50, 0), (0, 1, 60, 0), (1, 1, 9, 0)], "-", (None, None), vec![], false);
        c.case.chans[0][0].label = "日".repeat(22_000);
        v.push(c);
        let mut c = mk("dcep-huge-label-ascii", vec![spec(2, Kind::RelOrd, false, 0), spec(1, Kind::RelOrd, true, 0)], vec![spec(1, Kind::RelOrd, true, 0)],
            &[(0, 1, 50, 0), (0, 1, 60, 0), (1, 1, 9, 0)], "-", (None, None), vec![], false);
        c.case.chans[0][0].label = "L".repeat(70_000);
        v.push(c);
    }
    // FORWARD-TSN lost together with the chunk it skips; FORWARD-TSN across the TSN wrap (initial TSN 0)
    v.push(mk("pr-forward-tsn-lost", vec![spec(2, Kind::RexUnord, true, 0), spec(1, Kind::RelOrd, true, 0)], vec![spec(2, Kind::RexUnord, true, 0), spec(1, Kind::RelOrd, true, 0)],
        &[(0, 2, 100, 0), (0, 1, 50, 0), (0, 1, 60, 0)], "A.DATA.1.drop", (Some(7000), Some(5000)), vec![], false));
    v.push(mk("pr-forward-tsn-across-wrap", vec![spec(2, Kind::RexUnord, true, 0), spec(1, Kind::RelOrd, true, 0)], vec![spec(2, Kind::RexUnord, true, 0), spec(1, Kind::RelOrd, true, 0)],
        &[(0, 2, 3000, 0), (0, 1, 50, 0), (0, 1, 60, 0)], "A.DATA.1.drop", (Some(0), Some(5000)), vec![], false));
    v.push(mk("pr-ordered-rexmit2-loss", vec![spec(2, Kind::RexOrd, true, 2), spec(1, Kind::RelOrd, true, 0)], vec![spec(2, Kind::RexOrd, true, 2), spec(1, Kind::RelOrd, true, 0)],
        &[(0, 2, 10, 0), (0, 2, 3000, 0), (0, 1, 50, 0), (0, 2, 20, 0), (0, 1, 60, 0)], "A.TSN.1.dropn4+A.TSN.2.dropn1", (Some(0xFFFF_FFFF), Some(9)), vec![], false));
    if args.tier_thorough {
        // SSN wrap: more than 65 536 messages on one ordered channel (and TSN wrap on the way)
        let plan: Vec<(usize, u16, usize, u8)> = (0..66_000).map(|i| (0usize, 1u16, 4 + (i % 3), 0u8)).collect();
        let mut c = mk("ssn-wrap", vec![spec(1, Kind::RelOrd, true, 0)], vec![spec(1, Kind::RelOrd, true, 0)], &plan, "A.DATA.7.drop+B.SACK.3.drop", (Some(0xFFFF_F000), None), vec![], false);
        c.case.deadline = Duration::from_secs(120);
        c.case.cfg[0].max_buffered = 0;
        v.push(c);
    }
    let nrand = if args.tier_thorough { 150 } else { 8 };
    for r in 0..nrand {
        let nch = rng.range(1, 6) as usize;
        let mut a = vec![]; let mut b = vec![];
        for c in 0..nch {
            let k = if rng.chance(3, 4) { *rng.pick(&[Kind::RelOrd, Kind::RelUnord]) } else { *rng.pick(&KINDS) };
            let neg = rng.chance(1, 2);
            let s = spec(10 + c as u16, k, neg, rng.range(1, 6) as u16);
            if neg { b.push(s.clone()); }
            a.push(s);
        }
        let mut plan = vec![];
        let nm = rng.range(3, 25) as usize;
        for _ in 0..nm { plan.push((rng.below(2) as usize, 10 + rng.below(nch as u64) as u16, *rng.pick(&[0usize, 1, 7, 600, 1172, 1173, 2400, 9000, 30_000]), rng.below(3) as u8)); }
        let nf = rng.below(4) as usize;
        let fs: Vec<String> = (0..nf).map(|_| { let side = rng.below(2); format!("{}.{}.{}.{}", if side == 0 { "A" } else { "B" },
            *rng.pick(&["DATA", "DATA", "SACK", "ANY"]), rng.range(1, 9), *rng.pick(&["drop", "dup", "delay2", "late3"])) }).collect();
        v.push(mk(&format!("rand{r}"), a, b, &plan, &if fs.is_empty() { "-".to_string() } else { fs.join("+") }, (None, None), vec![], rng.chance(1, 4)));
    }
    // the SCTP *server* (side B) as in-band creator, bulk sender, lossy partially reliable sender, closer: the cases of these
    // families with the roles of A and B exchanged (name prefix `m-`)
    let fam = ["-dcep", "pr-", "send-before-open", "dcep-long-label1", "close-one-channel", "flow-control", "dcep-ack-with-full", "multi0", "multi3"];
    let mirrored: Vec<C12Case> = v.iter().enumerate().filter(|(i, c)| fam.iter().any(|f| c.name.contains(f)) && !c.name.starts_with("forward-tsn") && (args.tier_thorough || i % 2 == 0 || c.name.starts_with("pr-inband") || c.name.starts_with("kind0")))
        .map(|(_, c)| C12Case { name: format!("m-{}", c.name), case: mirror(&c.case), multi_thread: c.multi_thread }).collect();
    v.extend(mirrored);
    v
}

fn kind_of(c: &ChanSpec) -> (bool, bool) { (c.ordered, c.max_retransmits.is_some() || c.max_lifetime.is_some()) }

/// property oracles on the implementation
fn oracle(c: &Case, o: &Outcome) -> Vec<(String, String)> {
    let mut fails = vec![];
    // the wire of these runs — channel closes (RE-CONFIG), teardown (ABORT / SHUTDOWN-ACK / SHUTDOWN-COMPLETE), DCEP, FORWARD-TSN,
    // scripted datagrams — under C13's packet rules (size, CRC-32C, verification tag, consecutive TSNs) and its quiescence
    // rule; the window clause stays C13's own (its two recorded findings would show up here under C12's name).
    // Injected datagrams (End::Inject / End::Script) are the harness' own and are not on `o.wire`.
    for (sig, d) in crate::props::c13::wire_verdict(&o.wire).fails { fails.push((format!("wire:{sig}"), d)); }
    for side in 0..2 {
        for (sig, d) in crate::props::c13::txw_lines(side, c, o).2 { if sig.starts_with("quiescence:") && !sig.starts_with("quiescence:SACK") { fails.push((sig, d)); } }   // (the "one unowed SACK per datagram" allowance is only exact on C13's single-task runs)
    }
    let any_pr = c.chans.iter().flatten().any(|ch| kind_of(ch).1);
    // channel table: every channel created anywhere, by id
    let mut specs: Vec<ChanSpec> = vec![];
    for s in c.chans.iter().flatten() { if !specs.iter().any(|x| x.id == s.id) { specs.push(s.clone()); } }
    for side in 0..2 {
        let peer = 1 - side;
        for ch in &specs {
            let (ordered, pr) = kind_of(ch);
            let submitted: Vec<&Vec<u8>> = c.msgs.iter().filter(|m| m.side == side && m.chan == ch.id).map(|m| &m.data).collect();
            let evs: Vec<&DataChannelEvent> = o.events[peer].iter().filter(|(id, _)| *id == ch.id).map(|(_, e)| e).collect();
            let delivered: Vec<&Bytes> = evs.iter().filter_map(|e| if let DataChannelEvent::Message(m) = e { Some(m) } else { None }).collect();
            let who = format!("{}→{} ch{}", ["A", "B"][side], ["A", "B"][peer], ch.id);
            // every delivered message is one submitted message, used at most once
            let mut used = vec![false; submitted.len()];
            let mut order: Vec<usize> = vec![];
            let mut injected_seen = 0usize;
            for (i, d) in delivered.iter().enumerate() {
                // the complete two-byte message the FORWARD-TSN scripts inject at the end (it has to arrive, once)
                if matches!(c.end, End::Script(s2, n) if s2 == peer && n >= 3) && d.as_ref() == [9u8, 9] { injected_seen += 1; continue; }
                match (0..submitted.len()).find(|j| !used[*j] && submitted[*j].as_slice() == d.as_ref()) {
                    Some(j) => { used[j] = true; order.push(j); }
                    None => {
                        let dup = submitted.iter().any(|s| s.as_slice() == d.as_ref());
                        let sig = if dup { "delivered:duplicate" } else if pr { "delivered:fabricated-on-partially-reliable-channel" } else { "delivered:not-a-submitted-message" };
                        fails.push((sig.to_string(), format!("{who}: delivery #{i} ({} bytes) {}", d.len(), if dup { "was already delivered" } else { "equals no submitted message of this channel" })));
                        break;
                    }
                }
            }
            if let End::Script(s2, n) = c.end { if s2 == peer && o.ended && [4u8, 5, 6].contains(&n) && ch.id == 2 && side != peer && injected_seen != 1 {
                fails.push(("pr:complete-message-after-forward-tsn-not-delivered-once".into(), format!("{who}: the complete message sent after the FORWARD-TSN was delivered {injected_seen} times")));
            } }
            // ordered channels: the messages of one sender task arrive in that task's order
            let mine: Vec<&Msg> = c.msgs.iter().filter(|m| m.side == side && m.chan == ch.id).collect();
            let ambiguous = mine.iter().any(|a| mine.iter().any(|b| a.task != b.task && a.data == b.data));
            if ordered && !ambiguous {
                let tasks: Vec<u8> = mine.iter().map(|m| m.task).collect();
                let mut last: std::collections::HashMap<u8, usize> = Default::default();
                for j in &order {
                    let t = tasks[*j];
                    if let Some(prev) = last.get(&t) { if prev > j { fails.push(("ordered:out-of-order".into(), format!("{who}: task {t} order {:?}", order))); break; } }
                    last.insert(t, *j);
                }
            }
            if !pr && delivered.len() < submitted.len() && !fails.iter().any(|f| f.0.starts_with("delivered:")) {
                // excused only by a close the case itself asked for, or by a channel DCEP cannot carry
                let uncarriable = ch.label.len() > 65_535 || ch.protocol.len() > 65_535;
                let excused = c.closes.iter().any(|(_, id)| *id == ch.id) || uncarriable;   // (a teardown only starts after everything was delivered)
                if !excused {
                    fails.push((if any_pr { "stall:reliable-channel-behind-abandoned-chunk".to_string() } else { "stall".to_string() },
                        format!("{who}: {} of {} delivered after {} ms", delivered.len(), submitted.len(), o.elapsed_ms)));
                }
            }
            // any channel, partially reliable ones included: what is sent once the fault script is used up and the link
            // has gone quiet (phase 1) meets no loss, so it has to arrive
            let late: Vec<&Msg> = c.msgs.iter().filter(|m| m.side == side && m.chan == ch.id && m.phase == 1).collect();
            if pr && !late.is_empty() && o.faults_used.iter().all(|u| *u) && !(0..2).any(|s| c.end.closes_side(s)) && !c.closes.iter().any(|(_, id)| *id == ch.id) {
                let missing = late.iter().filter(|m| !delivered.iter().any(|d| d.as_ref() == m.data.as_slice())).count();
                if missing > 0 { fails.push(("pr:message-sent-on-a-quiet-link-not-delivered".into(), format!("{who}: {missing} of {} messages sent after the losses never arrived", late.len()))); }
            }
            // Open exactly once, before the first message; Close at most once
            let opens = evs.iter().filter(|e| matches!(e, DataChannelEvent::Open)).count();
            let closes = evs.iter().filter(|e| matches!(e, DataChannelEvent::Close)).count();
            if opens > 1 { fails.push(("open:more-than-once".into(), format!("{who}: {opens} Open events at {}", ["A", "B"][peer]))); }
            if let Some(first_msg) = evs.iter().position(|e| matches!(e, DataChannelEvent::Message(_))) {
                if !evs[..first_msg].iter().any(|e| matches!(e, DataChannelEvent::Open)) { fails.push(("open:message-before-open".into(), format!("{who}: first message precedes Open at {}", ["A", "B"][peer]))); }
            }
            if closes > 1 { fails.push(("close:more-than-once".into(), format!("{who}: {closes} Close events"))); }
        }
    }
    // in-band channels: opened at the creator => present at the peer with the creator's parameters;
    // and they do open (DCEP cannot carry a label / protocol longer than 65535 bytes: those must never open)
    for side in 0..2 {
        for ch in c.chans[side].iter().filter(|c| !c.negotiated) {
            let creator_open = o.events[side].iter().any(|(id, e)| *id == ch.id && matches!(e, DataChannelEvent::Open));   // (not the final state: a teardown closes never-opened channels too)
            let carriable = ch.label.len() <= 65_535 && ch.protocol.len() <= 65_535;
            let at_peer = o.chans_final[1 - side].iter().find(|f| f.id == ch.id);
            if !carriable {
                if creator_open || at_peer.is_some() { fails.push(("dcep:uncarriable-channel-opened".into(), format!("ch{}: label {} bytes", ch.id, ch.label.len()))); }
                continue;
            }
            if o.connected && !creator_open { fails.push(("dcep:channel-never-opened".into(), format!("ch{} created by {} is still Connecting after {} ms", ch.id, ["A", "B"][side], o.elapsed_ms))); }
            match at_peer {
                None => if creator_open { fails.push(("dcep:channel-missing-at-peer".into(), format!("ch{} created by {}", ch.id, ["A", "B"][side]))); },
                Some(f) => if f.label != ch.label || f.protocol != ch.protocol || f.ordered != ch.ordered || f.max_retransmits != ch.max_retransmits || f.max_lifetime != ch.max_lifetime {
                    let show = |s: &str| if s.len() > 40 { format!("{}…({} bytes)", &s[..s.char_indices().nth(20).map(|x| x.0).unwrap_or(0)], s.len()) } else { s.to_string() };
                    fails.push(("dcep:parameters-differ-at-peer".into(), format!("ch{}: label {} vs {}, ordered {} vs {}, rexmit {:?} vs {:?}, lifetime {:?} vs {:?}", ch.id, show(&f.label), show(&ch.label), f.ordered, ch.ordered, f.max_retransmits, ch.max_retransmits, f.max_lifetime, ch.max_lifetime)));
                }
            }
        }
    }
    fails
}

fn run_one(c: &C12Case, port: u16) -> Outcome {
    if c.multi_thread {
        let rt = tokio::runtime::Builder::new_multi_thread().worker_threads(3).enable_all().build().unwrap();
        rt.block_on(run_case(&c.case, port))
    } else {
        let rt = tokio::runtime::Builder::new_current_thread().enable_all().build().unwrap();
        rt.block_on(run_case(&c.case, port))
    }
}

/// canonical re-runnable text: `c12 <name>` of the quick/thorough list, or a full case line
fn c12_text(c: &C12Case) -> String { format!("{} {}", c.name, case_text(&c.case)) }

/// the harness' own reading of a RE-CONFIG chunk value (RFC 6525 §4.1, RFC 4960 §3.2.1): the stream ids each well-formed
/// Outgoing SSN Reset Request names within its *declared* length
fn rfc_listed(v: &[u8]) -> Vec<Vec<u16>> {
    let (mut i, mut out) = (0usize, vec![]);
    while i + 4 <= v.len() {
        let ty = u16::from_be_bytes([v[i], v[i + 1]]);
        let len = u16::from_be_bytes([v[i + 2], v[i + 3]]) as usize;
        if len < 4 || i + len > v.len() { break; }
        if ty == 13 && len >= 16 { out.push(v[i + 16..i + len].chunks_exact(2).map(|c| u16::from_be_bytes([c[0], c[1]])).collect()); }
        i += len + (4 - len % 4) % 4;
    }
    out
}

/// RE-CONFIG chunk values handled one after the other by a fresh endpoint with channels 0..5: (implementation line, oracle failures)
async fn reconfig_run(chunks: &[Vec<u8>], port: u16) -> (String, Vec<(String, String)>) {
    let specs: Vec<ChanSpec> = (0..6u16).map(|id| spec(id, Kind::RelOrd, true, 0)).collect();
    let mut ep = Endpoint::new(port, port + 1, true, &EpCfg::default(), &specs).await;
    for _ in 0..20 { tokio::task::yield_now().await; }
    ep.sctp.verif_set_state(SctpState::Connected);
    let (mut outs, mut fails) = (vec![], vec![]);
    for v in chunks {
        for d in &ep.dcs { d.next_ssn.store(7, std::sync::atomic::Ordering::SeqCst); }
        while ep.out_rx.try_recv().is_ok() {}
        let mut pk = vec![];
        pk.extend_from_slice(&port.to_be_bytes()); pk.extend_from_slice(&port.to_be_bytes()); pk.extend_from_slice(&0u32.to_be_bytes()); pk.extend_from_slice(&[0; 4]);
        pk.extend_from_slice(&[130, 0]); pk.extend_from_slice(&((4 + v.len()) as u16).to_be_bytes()); pk.extend_from_slice(v);
        let c = crc32c::crc32c(&pk).to_le_bytes(); pk[8..12].copy_from_slice(&c);
        let _ = ep.sctp.verif_handle_packet(Bytes::from(pk)).await;
        let reset: Vec<u16> = ep.dcs.iter().filter(|d| d.next_ssn.load(std::sync::atomic::Ordering::SeqCst) == 0).map(|d| d.id).collect();
        let mut resps = vec![];
        while let Ok(p) = ep.out_rx.try_recv() { for (t, _f, val) in chunks_of(&p) { if t == 130 && val.len() >= 12 && val[1] == 16 {
            resps.push((u32::from_be_bytes([val[4], val[5], val[6], val[7]]), u32::from_be_bytes([val[8], val[9], val[10], val[11]]))); } } }
        let line = if resps.is_empty() { "-".to_string() } else { resps.iter().map(|(sn, res)| format!("{sn}:{res}")).collect::<Vec<_>>().join(" ") };
        outs.push(format!("{line} reset={}", if reset.is_empty() { "-".to_string() } else { reset.iter().map(|x| x.to_string()).collect::<Vec<_>>().join(",") }));
        let listed = rfc_listed(v);
        let any_all = listed.iter().any(|ids| ids.is_empty());
        for ch in &reset {
            if !any_all && !listed.iter().any(|ids| ids.contains(ch)) {
                fails.push(("reconfig:stream-reset-not-named-in-the-request".to_string(), format!("channel {ch} had its outgoing SSN reset by the chunk {}; its requests name {listed:?}", hex(v))));
            }
        }
    }
    ep.shutdown();
    (outs.join(" | "), fails)
}

/// one live PeerConnection pair: (Close counts [offerer channel, answerer channel], oracle problems); Err = the pair could
/// not be set up
async fn pc_live(variant: usize) -> Result<(Vec<usize>, Vec<(String, String)>), String> {
    use crate::props::c10::pair::{Cfg, IceOpt, Knobs, Mix, Mode, Pair, wait_open};
    let mut problems = vec![];
    let cfg = Cfg { mode: Mode::WebRtc, mix: Mix::Data, bundle: 0, mux_require: true, ice: IceOpt::Full, latching: false, legacy: false, p_offers: true };
    let mut p = Pair::create(cfg, &Knobs::default());
    let r: Result<(), String> = async {
        p.negotiate().await?;
        p.wait_connected(Duration::from_secs(10)).await?;
        p.accept_channel(Duration::from_secs(5)).await?;
        Ok(())
    }.await;
    if let Err(e) = r { p.off.pc.close(); p.ans.pc.close(); return Err(e); }
    let (odc, adc) = (p.off.dc.clone().ok_or("no offerer channel")?, p.ans.dc.clone().ok_or("no answerer channel")?);
    if let Err(e) = wait_open(&odc, Duration::from_secs(5)).await { p.off.pc.close(); p.ans.pc.close(); return Err(e); }
    if adc.label != odc.label || adc.id != odc.id { problems.push(("dcep:parameters-differ-at-peer".to_string(), format!("offerer created ({}, {:?}), answerer sees ({}, {:?})", odc.id, odc.label, adc.id, adc.label))); }
    if variant == 1 { if let Some(t) = p.off.pc.verif_lc_sctp_transport() { let _ = t.close_data_channel(odc.id).await; } tokio::time::sleep(Duration::from_millis(100)).await; }
    if variant == 0 {
        // a channel created by each side after the connection is up, data sent right away (RFC 8832 §6)
        async fn expect(pc: &rustrtc::PeerConnection, label: &'static str, msg: &'static [u8]) -> Option<u16> {
            let pc = pc.clone();
            tokio::time::timeout(Duration::from_secs(4), async move {
                loop { match pc.recv().await { Some(rustrtc::PeerConnectionEvent::DataChannel(dc)) if dc.label == label => {
                        loop { match dc.recv().await { Some(DataChannelEvent::Message(m)) => return if m.as_ref() == msg { Some(dc.id) } else { None }, Some(_) => {}, None => return None } } }
                    Some(_) => {}, None => return None } }
            }).await.ok().flatten()
        }
        let late = p.off.pc.create_data_channel("late", None).map_err(|e| format!("create late channel: {e}"))?;
        if let Err(e) = p.off.pc.send_data(late.id, b"sent right after create_data_channel").await { problems.push(("dcep:data-sent-right-after-create-refused".to_string(), e.to_string())); }
        let back = p.ans.pc.create_data_channel("back", None).map_err(|e| format!("create back channel: {e}"))?;
        if let Err(e) = p.ans.pc.send_data(back.id, b"answerer's channel").await { problems.push(("dcep:data-sent-right-after-create-refused".to_string(), e.to_string())); }
        let (g1, g2) = tokio::join!(expect(&p.ans.pc, "late", b"sent right after create_data_channel"), expect(&p.off.pc, "back", b"answerer's channel"));
        if g1 != Some(late.id) { problems.push(("dcep:data-sent-right-after-create-lost".to_string(), format!("the offerer's channel 'late' (id {}) / its first message did not appear at the answerer (got {g1:?})", late.id))); }
        if g2 != Some(back.id) { problems.push(("dcep:channel-missing-at-peer".to_string(), format!("the answerer's channel 'back' (id {}) / its first message did not appear at the offerer (got {g2:?})", back.id))); }
        let ids = [odc.id, late.id, back.id];
        if ids[0] == ids[1] || ids[0] == ids[2] || ids[1] == ids[2] || ids[0] % 2 != ids[1] % 2 || ids[0] % 2 == ids[2] % 2 {
            problems.push(("pc:channel-ids-collide".to_string(), format!("stream ids: offerer {} and {}, answerer {} (each side must keep to its own parity)", ids[0], ids[1], ids[2])));
        }
    }
    p.off.pc.close(); p.ans.pc.close();
    tokio::time::sleep(Duration::from_millis(300)).await;
    let mut counts = vec![];
    for dc in [&odc, &adc] {
        let mut n = 0;
        while let Some(Some(ev)) = futures::FutureExt::now_or_never(tokio::task::unconstrained(dc.recv())) { if matches!(ev, DataChannelEvent::Close) { n += 1; } }
        counts.push(n);
    }
    Ok((counts, problems))
}

pub fn run(args: &Args) {
    let mut rng = Rng::new(args.seed);
    if let Some(case) = &args.replay {
        // replay by name (the generated list is deterministic per tier/seed) or by a c01-style case line
        if let Some(rest) = case.strip_prefix("reconfig ") {
            let chunks: Vec<Vec<u8>> = rest.split_whitespace().map(crate::unhex).collect();
            let rt = tokio::runtime::Builder::new_current_thread().enable_all().build().unwrap();
            let (out, fails) = rt.block_on(reconfig_run(&chunks, 53_990));
            println!("impl: {out}");
            for (sig, d) in fails { println!("ORACLE-FAIL {sig} {d}"); }
            return;
        }
        let name = case.split_whitespace().next().unwrap_or("");
        let mut r2 = Rng::new(args.seed);
        let mut dummy = Run::new("c12", &format!("{}/replay", args.out));
        dcep_cases(&mut dummy, &mut r2, false);
        let mut all = cases(&Args { tier_thorough: false, seed: args.seed, out: args.out.clone(), replay: None }, &mut r2);
        let mut r3 = Rng::new(args.seed);
        let mut d3 = Run::new("c12", &format!("{}/replay", args.out));
        dcep_cases(&mut d3, &mut r3, true);
        all.extend(cases(&Args { tier_thorough: true, seed: args.seed, out: args.out.clone(), replay: None }, &mut r3));
        let found = all.into_iter().find(|c| c.name == name);
        let c = match found { Some(c) => c, None => match crate::props::c01::parse_case(case) { Some(cc) => C12Case { name: "adhoc".into(), case: cc, multi_thread: false }, None => { println!("unknown case {case}"); return; } } };
        let o = run_one(&c, 42_000);
        println!("case: {}", c12_text(&c));
        println!("connected={} elapsed={}ms send_errors={:?}", o.connected, o.elapsed_ms, o.send_errors);
        for side in 0..2 { let l = replay_lines(side, &c.case, &o).1; println!("impl[{}]: {}", ["A", "B"][side], &l[..l.len().min(1500)]); }
        if std::env::var("VERIF_DUMP").is_ok() { for side in 0..2 { println!("ops[{}]: {}", ["A", "B"][side], replay_lines(side, &c.case, &o).0); } }
        for (k, d) in oracle(&c.case, &o) { println!("ORACLE-FAIL {k} {d}"); }
        return;
    }
    let mut run = Run::new("c12", &args.out);
    dcep_cases(&mut run, &mut rng, args.tier_thorough);
    // channel-type mapping, every combination, through the real code on both ends: `send_dcep_open` on a channel object
    // (what it queues is read back with the real `DataChannelOpen::unmarshal`), then that DCEP message goes as a DATA
    // chunk into a second transport's `handle_packet` → `handle_dcep`, and the channel it creates is read back
    {
        let rt = tokio::runtime::Builder::new_current_thread().enable_all().build().unwrap();
        let mut port = 56_000u16;
        for ord in [true, false] { for mr in [None, Some(0u16), Some(3), Some(65535)] { for ml in [None, Some(0u16), Some(500), Some(65535)] {
            let spec = ChanSpec { id: 1, ordered: ord, negotiated: false, max_retransmits: mr, max_lifetime: ml, label: "l".into(), protocol: String::new(), max_payload: None };
            let ou = |v: Option<u16>| v.map(|x| x.to_string()).unwrap_or("-".into());
            let out = rt.block_on(async {
                let tx = Endpoint::new(port, port + 1, true, &EpCfg::default(), &[spec.clone()]).await;
                let mut rx = Endpoint::new(port + 1, port, false, &EpCfg::default(), &[]).await;
                let sent = tx.sctp.send_dcep_open(&tx.dcs[0]).await;
                let q = tx.sctp.verif_snapshot().outbound_queue;
                let out = match (sent, q.iter().find(|c| c.3 == 50)) {
                    (Ok(()), Some((_sid, _ssn, _fl, _ppid, payload))) => {
                        match DataChannelOpen::unmarshal(payload) {
                            Ok(o) => {
                                // the receiving end: one DATA chunk (B|E, unordered as DCEP is sent), TSN = cumulative + 1
                                let cum = rx.sctp.verif_snapshot().cumulative_tsn_ack;
                                let mut pk = vec![];
                                pk.extend_from_slice(&(port).to_be_bytes()); pk.extend_from_slice(&(port + 1).to_be_bytes()); pk.extend_from_slice(&0u32.to_be_bytes()); pk.extend_from_slice(&[0; 4]);
                                let len = 16 + payload.len();
                                pk.extend_from_slice(&[0, 7]); pk.extend_from_slice(&(len as u16).to_be_bytes());
                                pk.extend_from_slice(&cum.wrapping_add(1).to_be_bytes()); pk.extend_from_slice(&1u16.to_be_bytes()); pk.extend_from_slice(&0u16.to_be_bytes()); pk.extend_from_slice(&50u32.to_be_bytes());
                                pk.extend_from_slice(payload); while pk.len() % 4 != 0 { pk.push(0); }
                                let c = crc32c::crc32c(&pk).to_le_bytes(); pk[8..12].copy_from_slice(&c);
                                let _ = rx.sctp.verif_handle_packet(Bytes::from(pk)).await;
                                rx.adopt_new();
                                let got = rx.channels.lock().iter().filter_map(|w| w.upgrade()).find(|d| d.id == 1)
                                    .map(|d| format!("{},{},{}", d.ordered as u8, ou(d.max_retransmits), ou(d.max_packet_life_time))).unwrap_or("none".into());
                                format!("{},{} {got}", o.channel_type, o.reliability_parameter)
                            }
                            _ => "unparsable".to_string(),
                        }
                    }
                    _ => "not-sent".to_string(),
                };
                tx.shutdown(); rx.shutdown();
                out
            });
            port += 2;
            run.case("chantype", &format!("{},{},{}", ord as u8, ou(mr), ou(ml)), &out, true);
        } } }
    }
    // the PR-SCTP sender as a function (hook verif_pr_advance): `should_abandon`, `update_advanced_peer_ack_point`,
    // `create_forward_tsn_chunk` on loaded sent queues — several streams, ordered and unordered, acked-by-gap records,
    // TSN wrap. Oracle on the implementation: a record is abandoned only if a record of the *same message* (same stream,
    // consecutive TSNs from a B to an E flag) exhausted its retransmissions or its lifetime.
    {
        let rt = tokio::runtime::Builder::new_current_thread().enable_all().build().unwrap();
        rt.block_on(async {
            let ep = Endpoint::new(55_900, 55_901, true, &EpCfg::default(), &[]).await;
            let n = if args.tier_thorough { 6000 } else { 1500 };
            let mut collateral = 0u64;
            for k in 0..n {
                let r0 = rng.next() as u32;
                let base = *rng.pick(&[100u32, 0xFFFF_FFF8, 0x7FFF_FFFA, r0]);
                // messages of 1..3 chunks on 1..3 streams (stream 1 ordered, 2 unordered, 3 ordered), consecutive TSNs
                let mut q: Vec<hook::VRecord> = vec![];
                let mut msg_of: Vec<usize> = vec![];
                let mut next_ssn = [0u16; 4];
                let mut tsn = base;
                // in-band channels: the DCEP OPEN (reliable, unordered flag, SSN 0) of a stream may still be outstanding
                // right in front of its first messages (message number usize::MAX = "no message")
                for sid in [1u16, 2, 3] { if rng.chance(1, 3) {
                    let acked = rng.chance(1, 5);
                    q.push(hook::VRecord { tsn, len: if acked { 0 } else { 40 }, sent_ms: 0, transmit_count: *rng.pick(&[1u32, 2, 5]), missing_reports: 0, abandoned: false, fast_retransmit: false,
                        needs_retransmit: !acked && rng.chance(1, 3), fast_retransmit_ms: None, in_flight: !acked && rng.chance(2, 3), acked, stream_id: sid, ssn: 0, flags: 7, max_retransmits: None, has_expiry: false });
                    msg_of.push(usize::MAX);
                    tsn = tsn.wrapping_add(1);
                } }
                let nmsg = rng.range(1, 5) as usize;
                for m in 0..nmsg {
                    let sid = *rng.pick(&[1u16, 2, 2, 3]);
                    let unordered = sid == 2;
                    let ssn = if unordered { 0 } else { let v = next_ssn[sid as usize]; next_ssn[sid as usize] += 1; v };
                    let nfrag = rng.range(1, 3) as usize;
                    // reliability is a property of the channel: fixed per stream within a case
                    let (mr, exp) = match (k + sid as usize) % 4 { 0 => (Some(0u16), false), 1 => (Some(2), false), 2 => (None, true), _ => (None, false) };
                    let tc = *rng.pick(&[1u32, 1, 2, 3, 4]);
                    for f in 0..nfrag {
                        let flags = (if unordered { 4 } else { 0 }) | (if f == 0 { 2 } else { 0 }) | (if f == nfrag - 1 { 1 } else { 0 });
                        let acked = rng.chance(1, 6);
                        q.push(hook::VRecord { tsn, len: if acked { 0 } else { 100 + 4 * q.len() }, sent_ms: 0, transmit_count: if f == 0 { tc } else { *rng.pick(&[1u32, tc]) }, missing_reports: 0,
                            abandoned: false, fast_retransmit: false, needs_retransmit: !acked && rng.chance(1, 4), fast_retransmit_ms: None, in_flight: !acked && rng.chance(2, 3), acked,
                            stream_id: sid, ssn, flags, max_retransmits: mr, has_expiry: exp });
                        msg_of.push(m);
                        tsn = tsn.wrapping_add(1);
                    }
                }
                let expired: Vec<u32> = q.iter().filter(|r| r.has_expiry && rng.chance(1, 3)).map(|r| r.tsn).collect();
                let peer_cum = base.wrapping_sub(1);
                let advanced = if rng.chance(1, 5) { base.wrapping_sub(3) } else { peer_cum };
                q.sort_by_key(|r| r.tsn);
                let sorted_msg: Vec<usize> = { let mut idx: Vec<usize> = (0..msg_of.len()).collect(); idx.sort_by_key(|i| base.wrapping_add(*i as u32)); idx.iter().map(|i| msg_of[*i]).collect() };
                let tsn_msg = |t: u32| msg_of[t.wrapping_sub(base) as usize];
                let _ = sorted_msg;
                let (adv, pend, mut pairs, fl, chunk) = ep.sctp.verif_pr_advance(&q, &expired, advanced, peer_cum);
                let after = ep.sctp.verif_sent_queue();
                pairs.sort();
                let prt = |r: &hook::VRecord| format!("{},{},{},{},{},{},{},{},{},{},{}", r.tsn, r.len, r.transmit_count, r.abandoned as u8, r.needs_retransmit as u8, r.in_flight as u8,
                    r.acked as u8, r.stream_id, r.ssn, r.max_retransmits.map(|v| v.to_string()).unwrap_or("-".into()), r.has_expiry as u8);
                let input = format!("{advanced} {peer_cum} {} {}", crate::props::c01::show_u32s(&expired), q.iter().map(prt).collect::<Vec<_>>().join(" "));
                let ctext = match &chunk { None => "-".to_string(), Some(c) => if pairs.len() <= 1 { hex(c) } else { format!("multi:{}", c.len()) } };
                let out = format!("adv={adv} pend={} fl={fl} pairs={} chunk={ctext} | {}", pend as u8,
                    if pairs.is_empty() { "-".to_string() } else { pairs.iter().map(|(a, b)| format!("{a}:{b}")).collect::<Vec<_>>().join(",") },
                    if after.is_empty() { "-".to_string() } else { after.iter().map(prt).collect::<Vec<_>>().join(" ") });
                // oracle: which messages had a reason to be abandoned
                let due: Vec<usize> = q.iter().filter(|r| !r.acked && (r.max_retransmits.map_or(false, |m| r.transmit_count > m as u32) || (r.has_expiry && expired.contains(&r.tsn)))).map(|r| tsn_msg(r.tsn)).collect();
                for r in &q {
                    let gone_or_abandoned = match after.iter().find(|x| x.tsn == r.tsn) { None => true, Some(x) => x.abandoned };
                    if gone_or_abandoned && !due.contains(&tsn_msg(r.tsn)) {
                        collateral += 1;
                        // the one known class: a PR record of an unordered stream on which another message was due
                        let due_on_stream = q.iter().any(|x| x.stream_id == r.stream_id && due.contains(&tsn_msg(x.tsn)));
                        let reliable = r.max_retransmits.is_none() && !r.has_expiry;
                        let kind = if reliable { "reliable-chunk-abandoned" } else if r.flags & 4 != 0 && due_on_stream { "unordered-channel-ssn-always-0" }
                            else if due_on_stream { "ordered-channel" } else { "nothing-due-on-its-stream" };
                        run.fail(&format!("pr:message-abandoned-without-cause:{kind}"), &format!("prsend {input}"), &format!("TSN {} (stream {}, message #{}) was abandoned although no chunk of its message exhausted its retransmissions or lifetime", r.tsn, r.stream_id, tsn_msg(r.tsn)));
                        break;
                    }
                }
                run.case("prsend", &input, &out, adv != advanced);
            }
            run.count_n("prsend_cases", n as u64);
            run.count_n("prsend_collateral_abandonment", collateral);
            ep.shutdown();
        });
    }
    // RE-CONFIG parameter walk as a function: crafted RE-CONFIG chunks through the real `handle_packet` → `handle_reconfig`
    // → `handle_reconfig_outgoing_ssn_reset` on an idle endpoint with channels 0..5 (each with next_ssn 7). Observed per chunk:
    // the RE-CONFIG responses it sends (serial number, result) and which channels had their outgoing SSN reset.
    // Oracle (own reading of RFC 6525 / 4960 §3.2.1): a channel is reset only if a request of the chunk names its id
    // within the parameter's *declared* length (pad bytes are not stream ids), or the request names no stream at all.
    {
        let rt = tokio::runtime::Builder::new_current_thread().enable_all().build().unwrap();
        let n = if args.tier_thorough { 400 } else { 80 };
        rt.block_on(async {
            let mut port = 53_000u16;
            for k in 0..n {
                port = if port > 53_900 { 53_000 } else { port + 2 };
                let mut next_sn: u32 = *rng.pick(&[0u32, 1, 500, 0xFFFF_FFF0]);
                let nchunks = rng.range(1, 3);
                let mut chunks: Vec<Vec<u8>> = vec![];
                for _ in 0..nchunks {
                    // build a chunk value of 1..3 parameters
                    let mut v: Vec<u8> = vec![];
                    for pi in 0..rng.range(1, 3) {
                        let _ = pi;
                        match if k < 12 { 0 } else { rng.below(6) } {
                            0..=2 => {   // Outgoing SSN Reset Request naming nid streams
                                let nid = if k < 12 { (k % 6) as usize } else { rng.below(6) as usize };
                                let ids: Vec<u16> = (0..nid).map(|_| rng.range(1, 7) as u16).collect();   // never 0: a reset of channel 0 must come from nowhere
                                let sn = if rng.chance(1, 6) { next_sn.wrapping_sub(1) } else { let s0 = next_sn; next_sn = next_sn.wrapping_add(1); s0 };
                                let len = 16 + 2 * ids.len();
                                v.extend_from_slice(&13u16.to_be_bytes()); v.extend_from_slice(&(len as u16).to_be_bytes());
                                v.extend_from_slice(&sn.to_be_bytes()); v.extend_from_slice(&0u32.to_be_bytes()); v.extend_from_slice(&77u32.to_be_bytes());
                                for i in &ids { v.extend_from_slice(&i.to_be_bytes()); }
                                while v.len() % 4 != 0 { v.push(0); }
                            }
                            3 => { v.extend_from_slice(&[0, 16, 0, 12, 0, 0, 0, 9, 0, 0, 0, 1]); }                     // a response parameter
                            4 => { v.extend_from_slice(&[0x80, 1, 0, 7, 1, 2, 3, 0]); }                               // unknown type, odd length, padded
                            _ => { v.extend_from_slice(&[0, 13, 0, 40, 0, 0, 0, 1]); break; }                         // truncated: declares more than is there
                        }
                    }
                    chunks.push(v);
                }
                let (out, fails) = reconfig_run(&chunks, port).await;
                let input = chunks.iter().map(|v| hex(v)).collect::<Vec<_>>().join(" ");
                for (sig, d) in fails { run.fail(&sig, &format!("reconfig {input}"), &d); }
                run.case("reconfig", &input, &out, true);
            }
        });
        run.count_n("reconfig_cases", n as u64);
    }
    // the third Close emitter, `PeerConnection::close`: channels created on a real PeerConnection, closed by the
    // application and / or by close() (twice): never more than one Close per channel
    {
        let rt = tokio::runtime::Builder::new_current_thread().enable_all().build().unwrap();
        for variant in 0..3 {
            let counts: Vec<usize> = rt.block_on(async {
                let pc = rustrtc::PeerConnection::new(rustrtc::RtcConfiguration::default());
                let dcs: Vec<_> = ["a", "b"].iter().filter_map(|l| pc.create_data_channel(l, None).ok()).collect();
                if variant == 1 { pc.close(); }
                pc.close();
                if variant == 2 { pc.close(); pc.close(); }
                tokio::time::sleep(Duration::from_millis(20)).await;
                let mut counts = vec![];
                for dc in &dcs {
                    let mut n = 0;
                    while let Some(Some(ev)) = futures::FutureExt::now_or_never(tokio::task::unconstrained(dc.recv())) { if matches!(ev, DataChannelEvent::Close) { n += 1; } }
                    counts.push(n);
                }
                counts
            });
            if counts.iter().any(|n| *n > 1) { run.fail("close:more-than-once", &format!("pcclose {variant}"), &format!("PeerConnection::close x{}: Close events per channel {:?}", [1, 2, 3][variant], counts)); }
            if counts.len() != 2 || counts.iter().any(|n| *n == 0) { run.fail("close:none-from-peer-connection-close", &format!("pcclose {variant}"), &format!("{counts:?}")); }
            run.count("pcclose_runs");
        }
    }
    // … and on a live association: two real PeerConnections connected over loopback ICE / DTLS (the shared C10 pair),
    // one in-band channel open at both ends; the application closes the channel and / or the PeerConnection — the
    // association's cleanup guard and `PeerConnection::close` both walk the channel list, each channel sees one Close.
    // Variant 0 also creates channels on BOTH sides after the connection is up: each appears at the peer
    // (`PeerConnectionEvent::DataChannel`) with its label, ids do not collide, and data sent right after creation arrives.
    // A pair that cannot be set up is retried; three failures in a row are a failure of the check, not a skipped case.
    {
        let rt = tokio::runtime::Builder::new_multi_thread().worker_threads(4).enable_all().build().unwrap();
        for variant in 0..2 {
            let mut last_err = String::new();
            let mut done = false;
            for _attempt in 0..3 {
                match rt.block_on(pc_live(variant)) {
                    Ok((counts, problems)) => {
                        for (sig, d) in problems { run.fail(&sig, &format!("pcclose-live {variant}"), &d); }
                        if counts.iter().any(|n| *n > 1) { run.fail("close:more-than-once", &format!("pcclose-live {variant}"), &format!("connected PeerConnection pair closed: Close events [offerer, answerer] = {counts:?}")); }
                        if counts.iter().any(|n| *n == 0) { run.fail("close:none-from-peer-connection-close", &format!("pcclose-live {variant}"), &format!("{counts:?}")); }
                        run.count("pcclose_live_runs");
                        done = true;
                        break;
                    }
                    Err(e) => { run.count("pcclose_live_setup_retries"); last_err = e; }
                }
            }
            if !done { run.fail("pc:live-pair-could-not-be-set-up", &format!("pcclose-live {variant}"), &format!("three attempts to connect two PeerConnections and open a channel failed; last error: {last_err}")); }
        }
    }
    // ordering of the DCEP OPEN against senders, as a chosen interleaving (hooks gate_arm / gate_release / verif_dcep_open_queued):
    // `send_dcep_open` is held at the point just before it queues the OPEN — the "OPEN is queued" mark (which lets a
    // sender skip queuing it) must not be set yet
    {
        let rt = tokio::runtime::Builder::new_current_thread().enable_all().build().unwrap();
        let problems: Vec<(String, String)> = rt.block_on(async {
            let mut problems = vec![];
            let ep = Endpoint::new(55_800, 55_801, true, &EpCfg::default(), &[spec(2, Kind::RelOrd, false, 0)]).await;
            for _ in 0..20 { tokio::task::yield_now().await; }   // the (idle) run loop has started and waits for DTLS
            ep.sctp.verif_set_state(SctpState::Connected);
            let dc = ep.dcs[0].clone();
            let open_queued = |ep: &Endpoint| ep.sctp.verif_snapshot().outbound_queue.iter().any(|c| c.3 == 50);
            hook::gate_arm(55_800, "dcep_open_before_queue");
            let (sctp, dc2) = (ep.sctp.clone(), dc.clone());
            let h = tokio::spawn(async move { sctp.send_dcep_open(&dc2).await });
            for _ in 0..50 { tokio::task::yield_now().await; }
            if rustrtc::transports::sctp::SctpTransport::verif_dcep_open_queued(&dc) && !open_queued(&ep) {
                problems.push(("dcep:open-marked-queued-before-it-is".to_string(), "send_dcep_open is held just before it queues the OPEN, the OPEN is not in the outbound queue, yet the mark that lets senders skip the OPEN is set".to_string()));
            }
            hook::gate_release(55_800, "dcep_open_before_queue");
            let _ = tokio::time::timeout(Duration::from_secs(2), h).await;
            if !(rustrtc::transports::sctp::SctpTransport::verif_dcep_open_queued(&dc) && open_queued(&ep)) {
                problems.push(("dcep:open-not-queued-by-send-dcep-open".to_string(), "after send_dcep_open returned the OPEN is not queued / not marked".to_string()));
            }
            // a sender now skips the OPEN and its data is behind it; a second send_dcep_open queues nothing
            let _ = ep.sctp.send_data(2, b"after").await;
            let _ = ep.sctp.send_dcep_open(&dc).await;
            let q = ep.sctp.verif_snapshot().outbound_queue;
            let kinds: Vec<u32> = q.iter().map(|c| c.3).collect();
            if kinds != vec![50, 53] { problems.push(("dcep:open-not-exactly-once-ahead-of-data".to_string(), format!("outbound queue PPIDs {kinds:?}, expected [50, 53]"))); }
            ep.shutdown();
            problems
        });
        for (sig, d) in problems { run.fail(&sig, "openmark", &d); }
        run.count("openmark_runs");
    }
    let cs = cases(args, &mut rng);
    let nthreads = std::env::var("VERIF_THREADS").ok().and_then(|v| v.parse().ok()).unwrap_or(6usize);
    let next = std::sync::atomic::AtomicUsize::new(0);
    let results: Vec<parking_lot::Mutex<Option<Outcome>>> = cs.iter().map(|_| parking_lot::Mutex::new(None)).collect();
    std::thread::scope(|s| {
        for t in 0..nthreads {
            let (next, results, cs) = (&next, &results, &cs);
            s.spawn(move || loop {
                let i = next.fetch_add(1, std::sync::atomic::Ordering::SeqCst);
                if i >= cs.len() { break; }
                *results[i].lock() = Some(run_one(&cs[i], 5000 + (t as u16) * 4));
            });
        }
    });
    for (i, c) in cs.iter().enumerate() {
        let o = results[i].lock().take().unwrap();
        if !o.connected { run.count("runs_not_connected"); }
        if c.multi_thread { run.count("runs_multi_thread"); }
        for side in 0..2 {
            let (ops, out, nrx) = replay_lines(side, &c.case, &o);
            run.count_n("packets_replayed", nrx as u64);
            run.case("rx", &ops, &out, nrx > 0);
        }
        let nmsg: usize = o.events.iter().map(|e| e.iter().filter(|(_, e)| matches!(e, DataChannelEvent::Message(_))).count()).sum();
        run.count_n("messages_delivered", nmsg as u64);
        run.count_n("channels", o.chans_final[1].len() as u64);
        for (sig, d) in oracle(&c.case, &o) { run.fail(&sig, &c12_text(c), &format!("{d} [{}]", c.name)); }
    }
    run.count_n("link_runs", cs.len() as u64);
    run.finish();
}
