//! C02 at the public API: two rustrtc `PeerConnection`s (data channel only, default configuration) negotiate
//! in-process over loopback ICE; the description handed to one side has its `a=fingerprint` replaced by the
//! fingerprint of some other certificate.  What `DtlsTransport::new` is given as the expected fingerprint is
//! decided in `PeerConnection::start_dtls` — this is the only place where that wiring is exercised.
//!   none     control: both sides reach Connected and the data channel opens
//!   offer    the offer's fingerprint is replaced before the answerer sees it
//!   answer   the answer's fingerprint is replaced before the offerer sees it
//! The side that was told the wrong fingerprint must never be Connected if it is the DTLS client (rustrtc answers
//! `a=setup:passive`, so between two rustrtc peers that is the offerer; read off the answer, not assumed).  If it is
//! the DTLS server it never sees a client certificate — the known finding of this property, here at the public API.
use rustrtc::transports::ice::IceGathererState;
use rustrtc::{PeerConnection, PeerConnectionState, RtcConfiguration, SessionDescription};
use std::time::{Duration, Instant};

#[derive(Clone, Copy, Debug, PartialEq)]
pub enum PcTamper { None, Offer, Answer, AnswerAs(char) }

pub struct PcOutcome { pub offerer: String, pub answerer: String, pub offerer_ever_connected: bool, pub answerer_ever_connected: bool, pub setup_answer_active: bool }

async fn gather(pc: &PeerConnection) -> bool {
    let t0 = Instant::now();
    while pc.ice_transport().gather_state() != IceGathererState::Complete {
        if t0.elapsed() > Duration::from_secs(5) { return false; }
        tokio::time::sleep(Duration::from_millis(10)).await;
    }
    true
}

/// the description with every `a=fingerprint` value replaced: `None` = the fingerprint of some other certificate,
/// `Some(k)` = a rewriting of the *right* value (letters as in `c02::expected_variant`: 1 h p x d = truncations /
/// extension / odd digit count, which denote something else or nothing; l c = lower case / no colons, which
/// denote the same 32 bytes and must still connect)
fn with_fingerprint(d: &SessionDescription, kind: Option<char>) -> Option<SessionDescription> {
    let other = rustrtc::transports::dtls::generate_certificate().ok()?;
    let other_fp = rustrtc::transports::dtls::fingerprint(&other);
    let text = d.to_sdp_string();
    let mut out = String::new();
    let mut n = 0;
    for line in text.lines() {
        if let Some(v) = line.strip_prefix("a=fingerprint:sha-256 ") {
            let full = v.trim().to_string();
            let newv = match kind { None => other_fp.clone(), Some('1') => full[..2].to_string(), Some('h') => full[..47].to_string(),
                Some('p') => full[..92].to_string(), Some('x') => format!("{full}:00"), Some('d') => full[..94].to_string(),
                Some('l') => full.to_ascii_lowercase(), Some('c') => full.replace(':', ""), _ => full };
            out.push_str(&format!("a=fingerprint:sha-256 {newv}")); n += 1;
        } else { out.push_str(line); }
        out.push_str("\r\n");
    }
    if n == 0 { return None; }
    SessionDescription::parse(d.sdp_type.clone(), &out).ok()
}

fn st(s: &PeerConnectionState) -> String { format!("{s:?}") }

pub async fn pc_session(t: PcTamper, wait: Duration) -> Option<PcOutcome> {
    let pc1 = PeerConnection::new(RtcConfiguration::default());
    let pc2 = PeerConnection::new(RtcConfiguration::default());
    let _dc = pc1.create_data_channel("c02", None).ok()?;
    let _ = pc1.create_offer().await.ok()?;
    if !gather(&pc1).await { return None; }
    let offer = pc1.create_offer().await.ok()?;
    pc1.set_local_description(offer.clone()).ok()?;
    let offer_seen = if t == PcTamper::Offer { with_fingerprint(&offer, None)? } else { offer };
    pc2.set_remote_description(offer_seen).await.ok()?;
    let _ = pc2.create_answer().await.ok()?;
    if !gather(&pc2).await { return None; }
    let answer = pc2.create_answer().await.ok()?;
    let setup_answer_active = answer.to_sdp_string().contains("a=setup:active");
    pc2.set_local_description(answer.clone()).ok()?;
    let answer_seen = match t { PcTamper::Answer => with_fingerprint(&answer, None)?, PcTamper::AnswerAs(k) => with_fingerprint(&answer, Some(k))?, _ => answer };
    // a description the stack refuses outright is as good as a handshake that fails
    if pc1.set_remote_description(answer_seen).await.is_err() {
        let o = PcOutcome { offerer: "RejectedDescription".into(), answerer: "-".into(), offerer_ever_connected: false, answerer_ever_connected: false, setup_answer_active };
        pc1.close(); pc2.close();
        return Some(o);
    }
    let (r1, r2) = (pc1.subscribe_peer_state(), pc2.subscribe_peer_state());
    let (mut c1, mut c2) = (false, false);
    let t0 = Instant::now();
    while t0.elapsed() < wait {
        let (a, b) = (r1.borrow().clone(), r2.borrow().clone());
        c1 |= a == PeerConnectionState::Connected;
        c2 |= b == PeerConnectionState::Connected;
        if c1 && c2 { break; }
        if t != PcTamper::None && (a == PeerConnectionState::Failed || b == PeerConnectionState::Failed) && t0.elapsed() > Duration::from_millis(1500) { break; }
        tokio::time::sleep(Duration::from_millis(20)).await;
    }
    let o = PcOutcome { offerer: st(&r1.borrow()), answerer: st(&r2.borrow()), offerer_ever_connected: c1, answerer_ever_connected: c2, setup_answer_active };
    pc1.close();
    pc2.close();
    Some(o)
}

pub fn run_cases(run: &mut crate::Run, reps: usize) {
    let rt = tokio::runtime::Builder::new_multi_thread().worker_threads(2).enable_all().build().unwrap();
    let mut cases = vec![PcTamper::None, PcTamper::Offer, PcTamper::Answer];
    for k in ['1', 'h', 'p', 'x', 'd', 'l', 'c'] { cases.push(PcTamper::AnswerAs(k)); }
    for t in cases {
        for _ in 0..reps {
            let name = match t { PcTamper::AnswerAs(k) => format!("pc answer-as-{k}"), _ => format!("pc {t:?}").to_lowercase() };
            let Some(o) = rt.block_on(pc_session(t, Duration::from_secs(6))) else { run.count("pc_session_inconclusive"); continue; };
            run.count(&format!("pc:{t:?}:offerer={}:answerer={}", o.offerer, o.answerer));
            let detail = format!("offerer {} (ever connected {}), answerer {} (ever connected {}), answerer is DTLS client: {}", o.offerer, o.offerer_ever_connected, o.answerer, o.answerer_ever_connected, o.setup_answer_active);
            match t {
                PcTamper::None => if !(o.offerer_ever_connected && o.answerer_ever_connected) { run.fail("pc:untampered-descriptions-did-not-connect", &name, &detail); },
                // the same 32 bytes written differently: `SdpFingerprint::parse` normalises, so this must work like the control
                PcTamper::AnswerAs('l') | PcTamper::AnswerAs('c') => if !(o.offerer_ever_connected && o.answerer_ever_connected) { run.fail("pc:equivalent-fingerprint-text-did-not-connect", &name, &detail); },
                // a value that is a prefix / an extension of the right one, or has an odd digit count: the side that is
                // DTLS client must never be Connected (refusing the description is fine too)
                PcTamper::AnswerAs(k) => {
                    let victim_is_client = !o.setup_answer_active;
                    if o.offerer_ever_connected && victim_is_client { run.fail(&format!("pc:connected-though-the-signalled-fingerprint-is-not-the-32-byte-digest:{k}"), &name, &detail); }
                    run.count(&format!("pc:answer-as-{k}:offerer={}", o.offerer));
                }
                PcTamper::Offer | PcTamper::Answer => {
                    // the side that was handed the wrong fingerprint
                    let (victim, ever, victim_is_client) = if t == PcTamper::Offer { ("answerer", o.answerer_ever_connected, o.setup_answer_active) }
                        else { ("offerer", o.offerer_ever_connected, !o.setup_answer_active) };
                    if ever && victim_is_client { run.fail(&format!("pc:connected-though-the-signalled-fingerprint-does-not-match:{victim}"), &name, &detail); }
                    // the DTLS server role never sees a client certificate: the known finding of this property, at the public API
                    if ever && !victim_is_client { run.fail("role:server:connected-though-no-certificate-message-was-ever-requested-or-received", &name, &detail); }
                    run.count(&format!("pc:wrong-fingerprint-at-dtls-{}", if victim_is_client { "client" } else { "server" }));
                }
            }
        }
    }
}

pub fn replay(case: &str) {
    let t = match case.trim() { "pc offer" => PcTamper::Offer, "pc answer" => PcTamper::Answer,
        x if x.starts_with("pc answer-as-") => PcTamper::AnswerAs(x.chars().last().unwrap_or('1')), _ => PcTamper::None };
    let rt = tokio::runtime::Builder::new_multi_thread().worker_threads(2).enable_all().build().unwrap();
    match rt.block_on(pc_session(t, Duration::from_secs(6))) {
        Some(o) => println!("offerer={} ever_connected={} answerer={} ever_connected={} answerer_is_dtls_client={}", o.offerer, o.offerer_ever_connected, o.answerer, o.answerer_ever_connected, o.setup_answer_active),
        None => println!("inconclusive"),
    }
}
