//! Shared DTLS harness (C03 / C02 / C11): real `DtlsTransport` endpoints over real `IceConn`s and
//! loopback UDP sockets.  Everything an endpoint sends lands on a harness-owned *sink* socket; what it
//! receives is handed to `IceConn::receive` by the harness — so the harness is the network (a packet
//! proxy that can drop, duplicate, reorder, rewrite and inject, from any source address).
//!
//! The endpoint's run loop (`runner` future returned by `DtlsTransport::new`) is not spawned: the
//! harness polls it itself, so an endpoint runs exactly when the harness says, and "quiescent" is a
//! fact (the future is pending and nothing woke it), not a timeout.
use aes_gcm::aead::{Aead, KeyInit, Payload};
use aes_gcm::{Aes128Gcm, Nonce};
use bytes::Bytes;
use hmac::{Hmac, Mac};
use rustrtc::transports::PacketReceiver;
use rustrtc::transports::dtls::{Certificate, DtlsState, DtlsTransport, SessionKeys};
use rustrtc::transports::ice::IceSocketWrapper;
use rustrtc::transports::ice::conn::IceConn;
use sha2::{Digest, Sha256};
use std::future::Future;
use std::net::SocketAddr;
use std::pin::Pin;
use std::sync::Arc;
use std::sync::atomic::{AtomicBool, Ordering};
use std::task::{Context, Poll, Wake};
use tokio::net::UdpSocket;
use tokio::sync::{mpsc, watch};

pub struct FlagWaker(pub AtomicBool);
impl Wake for FlagWaker {
    fn wake(self: Arc<Self>) { self.0.store(true, Ordering::SeqCst) }
}

pub struct Endpoint {
    pub is_client: bool,
    pub dtls: Arc<DtlsTransport>,
    pub conn: Arc<IceConn>,
    pub app_rx: mpsc::UnboundedReceiver<Bytes>,
    runner: Pin<Box<dyn Future<Output = ()> + Send>>,
    pub done: bool,
    flag: Arc<FlagWaker>,
    pub sink: std::net::UdpSocket,
    pub sink_addr: SocketAddr,
    pub sock_addr: SocketAddr,
    _sock_tx: watch::Sender<Option<IceSocketWrapper>>,
    mbuf: Vec<u8>,
    pub started: std::time::Instant,
}

impl Endpoint {
    pub async fn new(is_client: bool, cert: Certificate, expected: Option<String>) -> Endpoint {
        let sock = Arc::new(UdpSocket::bind("127.0.0.1:0").await.unwrap());
        let _ = sock.writable().await;
        let sock_addr = sock.local_addr().unwrap();
        let sink = std::net::UdpSocket::bind("127.0.0.1:0").unwrap();
        sink.set_nonblocking(true).unwrap();
        let sink_addr = sink.local_addr().unwrap();
        let (tx, rx) = watch::channel(Some(IceSocketWrapper::Udp(sock)));
        let conn = IceConn::new(rx, sink_addr, None);
        let (dtls, app_rx, runner) = DtlsTransport::new(conn.clone(), cert, is_client, 1500, expected).await.unwrap();
        Endpoint { is_client, dtls, conn, app_rx, runner: Box::pin(runner), done: false,
            flag: Arc::new(FlagWaker(AtomicBool::new(false))), sink, sink_addr, sock_addr, _sock_tx: tx,
            mbuf: Vec::new(), started: std::time::Instant::now() }
    }

    /// Run the endpoint's loop until it is quiescent; returns the datagrams it sent meanwhile.
    pub async fn pump(&mut self) -> Vec<Vec<u8>> {
        self.poll_quiesce().await;
        self.drain_sink()
    }

    pub async fn poll_quiesce(&mut self) {
        for _ in 0..64 {
            self.flag.0.store(false, Ordering::SeqCst);
            if !self.done {
                let waker = std::task::Waker::from(self.flag.clone());
                let mut cx = Context::from_waker(&waker);
                if let Poll::Ready(()) = self.runner.as_mut().poll(&mut cx) { self.done = true; }
            }
            tokio::task::yield_now().await;
            if self.done || !self.flag.0.load(Ordering::SeqCst) { break; }
        }
    }

    pub fn drain_sink(&mut self) -> Vec<Vec<u8>> {
        let mut out = vec![];
        let mut buf = [0u8; 4096];
        while let Ok((n, _)) = self.sink.recv_from(&mut buf) { out.push(buf[..n].to_vec()); }
        out
    }

    /// Hand one datagram to the endpoint's `IceConn` as if it had arrived from `src`.
    pub async fn deliver(&mut self, dg: &[u8], src: SocketAddr) {
        self.conn.receive(Bytes::copy_from_slice(dg), src, &mut self.mbuf).await;
    }

    pub fn state(&self) -> DtlsState { self.dtls.get_state() }
    pub fn letter(&self) -> char {
        match self.state() {
            DtlsState::New => 'N', DtlsState::Handshaking => 'H', DtlsState::Connected(..) => 'C',
            DtlsState::Failed => 'F', DtlsState::Closed => 'X',
        }
    }
    /// what `subscribe_state()` (the watch channel upper layers wait on) currently shows
    pub fn watch_letter(&self) -> char {
        match &*self.dtls.subscribe_state().borrow() {
            DtlsState::New => 'N', DtlsState::Handshaking => 'H', DtlsState::Connected(..) => 'C',
            DtlsState::Failed => 'F', DtlsState::Closed => 'X',
        }
    }
    /// A thread that keeps reading `subscribe_state()` while the run loop is polled, so that a value published
    /// only transiently (e.g. `Connected` sent before a check that then fails) is seen with high probability —
    /// upper layers (SCTP, SRTP set-up) act on whatever they see there.
    pub fn spy(&self) -> WatchSpy {
        let rx = self.dtls.subscribe_state();
        let stop = Arc::new(std::sync::atomic::AtomicBool::new(false));
        let seen = Arc::new(std::sync::atomic::AtomicU8::new(0));
        let (stop2, seen2) = (stop.clone(), seen.clone());
        let handle = std::thread::spawn(move || {
            while !stop2.load(std::sync::atomic::Ordering::Relaxed) {
                let bit = match &*rx.borrow() { DtlsState::New => 1u8, DtlsState::Handshaking => 2, DtlsState::Connected(..) => 4, DtlsState::Failed => 8, DtlsState::Closed => 16 };
                seen2.fetch_or(bit, std::sync::atomic::Ordering::Relaxed);
                std::hint::spin_loop();
            }
        });
        WatchSpy { stop, seen, handle: Some(handle) }
    }
    /// state as text: the Mutex state, followed by `!<watch>` if the watch channel disagrees
    pub fn state_text(&self) -> String {
        let (m, w) = (self.letter(), self.watch_letter());
        if m == w { m.to_string() } else { format!("{m}!{w}") }
    }
    pub fn keys(&self) -> Option<SessionKeys> {
        match self.state() { DtlsState::Connected(c, _) => Some(c.keys.clone()), _ => None }
    }
    pub fn srtp_profile(&self) -> Option<u16> {
        match self.state() { DtlsState::Connected(_, p) => p, _ => None }
    }
    pub fn drain_app(&mut self) -> Vec<Vec<u8>> {
        let mut v = vec![];
        while let Ok(b) = self.app_rx.try_recv() { v.push(b.to_vec()); }
        v
    }
}

// ---------------------------------------------------------------------------------------------
// The harness' own record layer (RFC 6347 / RFC 5288), independent of the code under test.

#[derive(Clone, Debug)]
pub struct PRec { pub ctype: u8, pub vmaj: u8, pub vmin: u8, pub epoch: u16, pub seq: u64, pub body: Vec<u8> }

pub fn parse_records(dg: &[u8]) -> Vec<PRec> {
    let mut out = vec![];
    let mut i = 0;
    while dg.len() >= i + 13 {
        let len = u16::from_be_bytes([dg[i + 11], dg[i + 12]]) as usize;
        if dg.len() < i + 13 + len { break; }
        let mut s = [0u8; 8];
        s[2..8].copy_from_slice(&dg[i + 5..i + 11]);
        out.push(PRec { ctype: dg[i], vmaj: dg[i + 1], vmin: dg[i + 2], epoch: u16::from_be_bytes([dg[i + 3], dg[i + 4]]),
            seq: u64::from_be_bytes(s), body: dg[i + 13..i + 13 + len].to_vec() });
        i += 13 + len;
    }
    out
}

pub fn record_bytes(ctype: u8, ver: (u8, u8), epoch: u16, seq: u64, body: &[u8]) -> Vec<u8> {
    let mut v = vec![ctype, ver.0, ver.1];
    v.extend_from_slice(&epoch.to_be_bytes());
    v.extend_from_slice(&seq.to_be_bytes()[2..8]);
    v.extend_from_slice(&(body.len() as u16).to_be_bytes());
    v.extend_from_slice(body);
    v
}

pub fn aad(epoch: u16, seq: u64, ctype: u8, ver: (u8, u8), len: usize) -> [u8; 13] {
    let mut a = [0u8; 13];
    a[0..2].copy_from_slice(&epoch.to_be_bytes());
    a[2..8].copy_from_slice(&seq.to_be_bytes()[2..8]);
    a[8] = ctype; a[9] = ver.0; a[10] = ver.1;
    a[11..13].copy_from_slice(&(len as u16).to_be_bytes());
    a
}

/// explicit nonce ‖ ciphertext ‖ tag for a record with the given header fields
pub fn seal_body(key: &[u8], iv: &[u8], epoch: u16, seq: u64, ctype: u8, ver: (u8, u8), plain: &[u8]) -> Vec<u8> {
    let mut explicit = [0u8; 8];
    explicit[0..2].copy_from_slice(&epoch.to_be_bytes());
    explicit[2..8].copy_from_slice(&seq.to_be_bytes()[2..8]);
    let mut nonce = [0u8; 12];
    nonce[..4].copy_from_slice(iv);
    nonce[4..].copy_from_slice(&explicit);
    let cipher = Aes128Gcm::new_from_slice(key).unwrap();
    let a = aad(epoch, seq, ctype, ver, plain.len());
    let ct = cipher.encrypt(Nonce::from_slice(&nonce), Payload { msg: plain, aad: &a }).unwrap();
    let mut body = explicit.to_vec();
    body.extend_from_slice(&ct);
    body
}

/// The (nonce, aad) a receiver must use for this record per the RFCs, and the AEAD result.
pub fn open_rec(key: &[u8], iv: &[u8], r: &PRec) -> (Vec<u8>, Vec<u8>, Option<Vec<u8>>) {
    if r.body.len() < 24 || key.len() != 16 || iv.len() != 4 { return (vec![], vec![], None); }
    let mut nonce = [0u8; 12];
    nonce[..4].copy_from_slice(iv);
    nonce[4..].copy_from_slice(&r.body[..8]);
    let a = aad(r.epoch, r.seq, r.ctype, (r.vmaj, r.vmin), r.body.len() - 24);
    let cipher = Aes128Gcm::new_from_slice(key).unwrap();
    let res = cipher.decrypt(Nonce::from_slice(&nonce), Payload { msg: &r.body[8..], aad: &a }).ok();
    (nonce.to_vec(), a.to_vec(), res)
}

/// `.n<explicit nonce>` for a protected record (what the receiver will feed the AEAD as nonce tail)
pub fn nonce_tag(r: &PRec) -> String {
    if r.epoch > 0 && (21..=23).contains(&r.ctype) && r.body.len() >= 24 { format!(".n{}", crate::hex(&r.body[..8])) } else { String::new() }
}

pub fn fnv64(bs: &[u8]) -> u64 {
    let mut h = 0xcbf29ce484222325u64;
    for b in bs { h ^= *b as u64; h = h.wrapping_mul(0x100000001b3); }
    h
}

pub fn prf_sha256(secret: &[u8], label: &[u8], seed: &[u8], n: usize) -> Vec<u8> {
    type H = Hmac<Sha256>;
    let mut real_seed = label.to_vec();
    real_seed.extend_from_slice(seed);
    let mut a = real_seed.clone();
    let mut out = vec![];
    while out.len() < n {
        let mut m = <H as hmac::digest::KeyInit>::new_from_slice(secret).unwrap();
        m.update(&a);
        a = m.finalize().into_bytes().to_vec();
        let mut m = <H as hmac::digest::KeyInit>::new_from_slice(secret).unwrap();
        m.update(&a);
        m.update(&real_seed);
        out.extend_from_slice(&m.finalize().into_bytes());
    }
    out.truncate(n);
    out
}

pub fn verify_data(ms: &[u8], client_label: bool, transcript: &[u8]) -> Vec<u8> {
    let h = Sha256::digest(transcript);
    prf_sha256(ms, if client_label { b"client finished" } else { b"server finished" }, &h, 12)
}

pub fn read_dir(keys: &SessionKeys, is_client: bool) -> (Vec<u8>, Vec<u8>) {
    if is_client { (keys.server_write_key.clone(), keys.server_write_iv.clone()) }
    else { (keys.client_write_key.clone(), keys.client_write_iv.clone()) }
}
pub fn write_dir(keys: &SessionKeys, is_client: bool) -> (Vec<u8>, Vec<u8>) { read_dir(keys, !is_client) }

// ---------------------------------------------------------------------------------------------

/// A pair after an undisturbed handshake, with the datagrams that made it.
pub struct Pair {
    pub c: Endpoint,
    pub s: Endpoint,
    /// (from_client, datagram)
    pub log: Vec<(bool, Vec<u8>)>,
}

pub struct WatchSpy { stop: Arc<std::sync::atomic::AtomicBool>, seen: Arc<std::sync::atomic::AtomicU8>, handle: Option<std::thread::JoinHandle<()>> }
impl WatchSpy {
    /// stop and report whether the watch channel ever showed `Connected`
    pub fn saw_connected(mut self) -> bool {
        self.stop.store(true, std::sync::atomic::Ordering::Relaxed);
        if let Some(h) = self.handle.take() { let _ = h.join(); }
        self.seen.load(std::sync::atomic::Ordering::Relaxed) & 4 != 0
    }
}
impl Drop for WatchSpy { fn drop(&mut self) { self.stop.store(true, std::sync::atomic::Ordering::Relaxed); } }

pub fn certs() -> (Certificate, Certificate) {
    (rustrtc::transports::dtls::generate_certificate().unwrap(), rustrtc::transports::dtls::generate_certificate().unwrap())
}

impl Pair {
    /// Undisturbed handshake through the proxy.  `None` if it did not complete (never expected).
    pub async fn connect(cc: Certificate, sc: Certificate, exp_c: Option<String>, exp_s: Option<String>) -> Option<Pair> {
        let mut c = Endpoint::new(true, cc, exp_c).await;
        let mut s = Endpoint::new(false, sc, exp_s).await;
        let mut log = vec![];
        let (c_src, s_src) = (c.sink_addr, s.sink_addr);
        let _ = s.pump().await;
        for _ in 0..12 {
            let a = c.pump().await;
            for d in &a { log.push((true, d.clone())); s.deliver(d, s_src).await; }
            let b = s.pump().await;
            for d in &b { log.push((false, d.clone())); c.deliver(d, c_src).await; }
            if a.is_empty() && b.is_empty() { break; }
        }
        let _ = c.pump().await;
        if c.letter() == 'C' && s.letter() == 'C' { Some(Pair { c, s, log }) } else { None }
    }

    /// The handshake transcript as the RFC defines it (all handshake messages in order, both
    /// directions, HelloVerifyRequest and the first ClientHello excluded when a cookie exchange took
    /// place — rustrtc servers never send one), reconstructed from the proxied datagrams.
    /// Returns (through client Finished, through server Finished).
    pub fn transcripts(&self) -> (Vec<u8>, Vec<u8>) {
        let keys = self.c.keys().unwrap();
        let (mut t, mut t_cf) = (vec![], vec![]);
        for (from_client, dg) in &self.log {
            for r in parse_records(dg) {
                if r.ctype != 22 { continue; }
                let msg = if r.epoch == 0 { Some(r.body.clone()) } else {
                    let (k, iv) = write_dir(&keys, *from_client);
                    open_rec(&k, &iv, &r).2
                };
                if let Some(m) = msg {
                    t.extend_from_slice(&m);
                    if *from_client && r.epoch > 0 { t_cf = t.clone(); }
                }
            }
        }
        (t_cf, t)
    }
}
