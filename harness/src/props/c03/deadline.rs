//! "…or the transport ends in Failed … before the handshake deadline": run loops that are left alone until
//! their own deadline fires, in real time (the crate's tokio has no pausable clock).  The retransmissions and
//! the transition are replayed on the model (`hs` stream: `tk` … `dl`), the timing is judged by the driver
//! against the generated constants (`dl` stream).  Three endpoints wait concurrently, so one pass costs the
//! handshake timeout (30 s) once:
//!   lone    a client whose peer never answers
//!   stuck   a client that sent its Finished and a server that sent its ServerHelloDone; the network then dies
use super::hs::*;
use super::pair::certs;
use rustrtc::transports::dtls::fingerprint;
use std::time::{Duration, Instant};

pub struct DeadlineOutcome {
    /// (model input line, implementation output line) for the `hs` stream
    pub hs: Vec<(String, String)>,
    /// the same for the `dl` stream
    pub dl: Vec<(String, String)>,
    pub fails: Vec<(String, String)>,
}

struct Timing { ticks: usize, last_h: u128, first_f: Option<u128> }

/// `None` = the harness thread was stalled for too long at some point (timing not trustworthy)
pub async fn deadline_sessions(patience: Duration) -> Option<DeadlineOutcome> {
    let (cc, scert) = certs();
    let mut lone = Recd::new(true, cc.clone(), None).await;
    let _ = lone.start().await;
    let mut c = Recd::new(true, cc.clone(), Some(fingerprint(&scert))).await;
    let mut s = Recd::new(false, scert, None).await;
    let (c_src, s_src) = (c.ep.sink_addr, s.ep.sink_addr);
    let _ = s.start().await;
    let hello = c.start().await;
    let mut flight4 = vec![];
    for d in &hello { flight4.extend(s.inject(d, s_src).await); }
    let mut flight5 = vec![];
    for d in &flight4 { flight5.extend(c.inject(d, c_src).await); }
    let mut fails = vec![];
    if flight5.is_empty() || c.ep.letter() != 'H' || s.ep.letter() != 'H' { return None; }
    // ---- the network is dead from here on
    let names = ["lone-client", "stuck-client", "stuck-server"];
    let mut tm: Vec<Timing> = (0..3).map(|_| Timing { ticks: 0, last_h: 0, first_f: None }).collect();
    let t0 = Instant::now();
    let mut last_poll = Instant::now();
    loop {
        tokio::time::sleep(Duration::from_millis(120)).await;
        if last_poll.elapsed() > Duration::from_millis(700) { return None; }
        last_poll = Instant::now();
        for (i, r) in [&mut lone, &mut c, &mut s].into_iter().enumerate() {
            if tm[i].first_f.is_some() { continue; }
            let before = r.ep.started.elapsed().as_millis();
            let (n, failed) = r.poll_timers().await;
            tm[i].ticks += n;
            if failed { tm[i].first_f = Some(r.ep.started.elapsed().as_millis()); }
            else if r.ep.letter() == 'H' { tm[i].last_h = before; }
        }
        if tm.iter().all(|t| t.first_f.is_some()) || t0.elapsed() > patience { break; }
    }
    // a Failed endpoint is dead: the datagrams it was waiting for change nothing any more
    if s.ep.letter() == 'F' {
        let mut out = vec![];
        for d in &flight5 { out.extend(s.inject(d, s_src).await); }
        if !out.is_empty() || s.ep.letter() != 'F' { fails.push(("conv:deadline:failed-endpoint-reacted-to-a-datagram".to_string(), "stuck-server".to_string())); }
    }
    let mut dl = vec![];
    for (i, t) in tm.iter().enumerate() {
        dl.push((format!("{} {} {}", t.ticks, t.last_h, t.first_f.map(|f| f.to_string()).unwrap_or("-".into())), "ok".to_string()));
        if t.first_f.is_none() {
            fails.push((format!("conv:deadline:still-handshaking-after-{}s:{}", patience.as_secs(), names[i]), format!("{} retransmissions, last seen Handshaking at {} ms", t.ticks, t.last_h)));
        }
    }
    for (i, r) in [&lone, &c, &s].into_iter().enumerate() {
        if let Some(o) = r.outs.iter().find(|o| o.split(',').next().map(|st| st.contains('!')).unwrap_or(false)) {
            fails.push((format!("state:watch-channel-differs-from-state:{}", o.split(',').next().unwrap_or("")), names[i].to_string()));
        }
    }
    Some(DeadlineOutcome { hs: vec![lone.lines(), c.lines(), s.lines()], dl, fails })
}

/// run the sessions on a thread of their own (the caller goes on with its other cases meanwhile)
pub fn spawn_deadline_sessions() -> std::thread::JoinHandle<Option<DeadlineOutcome>> {
    std::thread::spawn(|| {
        let rt = tokio::runtime::Builder::new_current_thread().enable_all().build().unwrap();
        for _ in 0..2 {
            if let Some(o) = rt.block_on(deadline_sessions(Duration::from_secs(45))) { return Some(o); }
        }
        None
    })
}

/// fold an outcome into a run (shared by C02 and C11)
pub fn record(run: &mut crate::Run, h: std::thread::JoinHandle<Option<DeadlineOutcome>>) {
    match h.join().ok().flatten() {
        Some(o) => {
            for (i, l) in &o.hs { run.case("hs", i, l, true); }
            for (i, l) in &o.dl { run.case("dl", i, l, true); }
            run.count("deadline_sessions");
            for (sig, d) in o.fails { run.fail(&sig, "deadline", &d); }
        }
        None => run.count("deadline_skipped_timing"),
    }
}

pub fn replay() {
    match spawn_deadline_sessions().join().ok().flatten() {
        Some(o) => {
            for (i, l) in o.hs { println!("ops: {i}\nimpl: {l}"); }
            for (i, l) in o.dl { println!("dl ops: {i}\nimpl: {l}"); }
            for (s, d) in o.fails { println!("ORACLE-FAIL {s} {d}"); }
        }
        None => println!("inconclusive (timing)"),
    }
}
