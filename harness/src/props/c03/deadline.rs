//! "…or the transport ends in Failed … before the handshake deadline": run loops that are left alone until
//! their own deadline fires, in real time (the crate's tokio has no pausable clock).  The retransmissions and
//! the transition are replayed on the model (`hs` stream: `tk` … `dl`), the timing is judged by the driver
//! against the generated constants (`dl` stream).  Three endpoints wait concurrently, so one pass costs the
//! handshake timeout (30 s) once:
//!   lone    a client whose peer never answers
//!   stuck   a client that sent its Finished and a server that sent its ServerHelloDone; the network then dies
use super::hs::*;
use super::pair::certs;
use rustrtc::transports::dtls::fingerprint;
use std::time::{Duration, Instant};

pub struct DeadlineOutcome {
    /// (model input line, implementation output line) for the `hs` stream
    pub hs: Vec<(String, String)>,
    /// the same for the `dl` stream
    pub dl: Vec<(String, String)>,
    pub fails: Vec<(String, String)>,
    pub stalled: bool,
}

struct Timing { ticks: usize, last_h: u128, first_f: Option<u128> }

/// `None` = the harness thread was stalled for too long at some point (timing not trustworthy)
pub async fn deadline_sessions(patience: Duration) -> Option<DeadlineOutcome> {
    let (cc, scert) = certs();
    let mut lone = Recd::new(true, cc.clone(), None).await;
    let _ = lone.start().await;
    let mut c = Recd::new(true, cc.clone(), Some(fingerprint(&scert))).await;
    let mut s = Recd::new(false, scert, None).await;
    let (c_src, s_src) = (c.ep.sink_addr, s.ep.sink_addr);
    let _ = s.start().await;
    let hello = c.start().await;
    let mut flight4 = vec![];
    for d in &hello { flight4.extend(s.inject(d, s_src).await); }
    let mut flight5 = vec![];
    for d in &flight4 { flight5.extend(c.inject(d, c_src).await); }
    let mut fails = vec![];
    if flight5.is_empty() || c.ep.letter() != 'H' || s.ep.letter() != 'H' { return None; }
    // a pair that completes its handshake and is then left alone across the deadline: the deadline must not touch it
    let (cc2, sc2) = certs();
    let mut c2 = Recd::new(true, cc2.clone(), Some(fingerprint(&sc2))).await;
    let mut s2 = Recd::new(false, sc2, None).await;
    let (c2_src, s2_src) = (c2.ep.sink_addr, s2.ep.sink_addr);
    let _ = s2.start().await;
    let mut to_s: Vec<Vec<u8>> = c2.start().await;
    for _ in 0..8 {
        let mut to_c = vec![];
        for d in to_s.drain(..) { to_c.extend(s2.inject(&d, s2_src).await); }
        for d in to_c { to_s.extend(c2.inject(&d, c2_src).await); }
        if to_s.is_empty() { break; }
    }
    if c2.ep.letter() != 'C' || s2.ep.letter() != 'C' { return None; }
    // ---- the network is dead from here on
    let names = ["lone-client", "stuck-client", "stuck-server"];
    let mut tm: Vec<Timing> = (0..3).map(|_| Timing { ticks: 0, last_h: 0, first_f: None }).collect();
    let t0 = Instant::now();
    let mut last_poll = Instant::now();
    let mut stalled = false;
    let mut junk_sent = 0usize;
    let mut connected_pair_sent = false;
    loop {
        tokio::time::sleep(Duration::from_millis(120)).await;
        if last_poll.elapsed() > Duration::from_millis(700) { stalled = true; }
        last_poll = Instant::now();
        for (i, r) in [&mut lone, &mut c, &mut s].into_iter().enumerate() {
            if tm[i].first_f.is_some() { continue; }
            let before = r.ep.started.elapsed().as_millis();
            let (n, failed) = r.poll_timers().await;
            tm[i].ticks += n;
            // the lone client is not left entirely alone: after its 10th and 25th retransmission (right after the tick, so the
            // datagram cannot be mistaken for one) somebody sends it a DTLS-looking datagram that means nothing (clear-text
            // application data).  The deadline counts from the start of the handshake, not from the last datagram.
            if i == 0 && n > 0 && !failed && ((junk_sent == 0 && tm[0].ticks >= 10) || (junk_sent == 1 && tm[0].ticks >= 25)) {
                junk_sent += 1;
                let junk = super::pair::record_bytes(23, (254, 253), 0, 7 + junk_sent as u64, b"still there?");
                let src = r.ep.sink_addr;
                let _ = r.inject(&junk, src).await;
            }
            if failed { tm[i].first_f = Some(r.ep.started.elapsed().as_millis()); }
            else if r.ep.letter() == 'H' { tm[i].last_h = before; }
        }
        // the Connected pair: its loops are polled as well (a deadline that wrongly fires there needs a poll to show)
        let (a, b) = (c2.poll_timers().await, s2.poll_timers().await);
        if a.0 + b.0 > 0 { connected_pair_sent = true; }
        // everybody failed and the Connected pair is past its own deadline by a second, or patience is over
        let past = c2.ep.started.elapsed() > Duration::from_secs(32) || c2.ep.letter() != 'C' || s2.ep.letter() != 'C';
        if (tm.iter().all(|t| t.first_f.is_some()) && past) || t0.elapsed() > patience { break; }
    }
    // a Failed endpoint is dead: the datagrams it was waiting for change nothing any more
    if s.ep.letter() == 'F' {
        let mut out = vec![];
        for d in &flight5 { out.extend(s.inject(d, s_src).await); }
        if !out.is_empty() || s.ep.letter() != 'F' { fails.push(("conv:deadline:failed-endpoint-reacted-to-a-datagram".to_string(), "stuck-server".to_string())); }
    }
    // the Connected pair must still be Connected, silent, and able to exchange application data
    let age = c2.ep.started.elapsed().as_millis();
    if c2.ep.letter() != 'C' || s2.ep.letter() != 'C' {
        fails.push((format!("conv:deadline:connected-transport-ended-{}{}-at-the-handshake-deadline", c2.ep.letter(), s2.ep.letter()), format!("connected pair, {age} ms after start")));
    } else {
        if connected_pair_sent { fails.push(("conv:retransmission-after-both-connected".to_string(), "connected pair held across the deadline".to_string())); }
        let before = s2.outs.len();
        for d in c2.send(b"still alive after the deadline").await { s2.inject(&d, s2_src).await; }
        let got = s2.outs[before..].iter().any(|o| o.contains(&crate::hex(b"still alive after the deadline")));
        if !got { fails.push(("conv:app-data-unreadable-between-connected-peers".to_string(), "connected pair held across the deadline".to_string())); }
    }
    let mut dl = vec![];
    for (i, t) in tm.iter().enumerate() {
        dl.push((format!("{} {} {}", t.ticks, t.last_h, t.first_f.map(|f| f.to_string()).unwrap_or("-".into())), "ok".to_string()));
        if t.first_f.is_none() {
            fails.push((format!("conv:deadline:still-handshaking-after-{}s:{}", patience.as_secs(), names[i]), format!("{} retransmissions, last seen Handshaking at {} ms", t.ticks, t.last_h)));
        }
    }
    for (i, r) in [&lone, &c, &s].into_iter().enumerate() {
        if let Some(o) = r.outs.iter().find(|o| o.split(',').next().map(|st| st.contains('!')).unwrap_or(false)) {
            fails.push((format!("state:watch-channel-differs-from-state:{}", o.split(',').next().unwrap_or("")), names[i].to_string()));
        }
    }
    // if the harness thread was held up for long, the exact tick history / timing is not trustworthy (a retransmission may
    // have been skipped): those lines are dropped — the oracles above do not depend on them
    if stalled { return Some(DeadlineOutcome { hs: vec![c2.lines(), s2.lines()], dl: vec![], fails, stalled: true }); }
    Some(DeadlineOutcome { hs: vec![lone.lines(), c.lines(), s.lines(), c2.lines(), s2.lines()], dl, fails, stalled: false })
}

/// run the sessions on a thread of their own (the caller goes on with its other cases meanwhile)
pub fn spawn_deadline_sessions() -> std::thread::JoinHandle<Option<DeadlineOutcome>> {
    std::thread::spawn(|| {
        let rt = tokio::runtime::Builder::new_current_thread().enable_all().build().unwrap();
        for _ in 0..2 {
            if let Some(o) = rt.block_on(deadline_sessions(Duration::from_secs(45))) { return Some(o); }
        }
        None
    })
}

/// fold an outcome into a run (shared by C02 and C11)
pub fn record(run: &mut crate::Run, h: std::thread::JoinHandle<Option<DeadlineOutcome>>) {
    match h.join().ok().flatten() {
        Some(o) => {
            for (i, l) in &o.hs { run.case("hs", i, l, true); }
            for (i, l) in &o.dl { run.case("dl", i, l, true); }
            run.count(if o.stalled { "deadline_sessions_timing_lines_dropped" } else { "deadline_sessions" });
            for (sig, d) in o.fails { run.fail(&sig, "deadline", &d); }
        }
        None => { run.count("deadline_skipped"); run.fail("conv:deadline:sessions-could-not-be-run", "deadline", "the set-up handshakes of the deadline block did not reach their start states twice in a row"); }
    }
}

pub fn replay() {
    match spawn_deadline_sessions().join().ok().flatten() {
        Some(o) => {
            for (i, l) in o.hs { println!("ops: {i}\nimpl: {l}"); }
            for (i, l) in o.dl { println!("dl ops: {i}\nimpl: {l}"); }
            for (s, d) in o.fails { println!("ORACLE-FAIL {s} {d}"); }
        }
        None => println!("inconclusive (timing)"),
    }
}
