//! rustrtc client ↔ reference DTLS server (the `dtls` crate of webrtc-rs 0.17) through the harness proxy.
//! The reference server answers the first ClientHello with a HelloVerifyRequest, so this is what
//! executes rustrtc's cookie exchange (`handle_hello_verify_request`, the post-HVR resynchronisation of
//! `recv_message_seq`), and it gives an independent opinion on the key schedule: the exporter output of
//! the two stacks must agree and application data must round-trip.  The client's datagram history is
//! replayed on the Lean model like every other `hs` case.
use super::hs::*;
use super::pair::*;
use dtls::cipher_suite::CipherSuiteId;
use dtls::config::{Config, ExtendedMasterSecretType};
use dtls::conn::DTLSConn;
use dtls::crypto::Certificate as RefCertificate;
use dtls::extension::extension_use_srtp::SrtpProtectionProfile;
use dtls::listener::listen;
use std::sync::Arc;
use std::time::Duration;
use tokio::net::UdpSocket;
use webrtc_util::KeyingMaterialExporter;
use webrtc_util::conn::{Conn, Listener};

/// faults the proxy applies to the server→client direction of the cookie exchange / flight 4
#[derive(Clone, Debug, PartialEq)]
pub enum RefFault { None, DupHvr, DupHvrLate, SwapFlight, DupFlight, NoEms, SplitSwap, SplitDup }

impl RefFault {
    pub fn text(&self) -> &'static str {
        match self { RefFault::None => "none", RefFault::DupHvr => "duphvr", RefFault::DupHvrLate => "duphvrlate",
            RefFault::SwapFlight => "swapflight", RefFault::DupFlight => "dupflight", RefFault::NoEms => "noems",
            RefFault::SplitSwap => "splitswap", RefFault::SplitDup => "splitdup" }
    }
    pub fn parse(s: &str) -> RefFault {
        match s { "duphvr" => RefFault::DupHvr, "duphvrlate" => RefFault::DupHvrLate, "swapflight" => RefFault::SwapFlight,
            "dupflight" => RefFault::DupFlight, "noems" => RefFault::NoEms, "splitswap" => RefFault::SplitSwap,
            "splitdup" => RefFault::SplitDup, _ => RefFault::None }
    }
}

pub struct RefOutcome {
    pub line: (String, String),
    pub client_final: char,
    pub hvr_seen: bool,
    pub exporter_equal: Option<bool>,
    pub echo_ok: Option<bool>,
    pub profile: (Option<u16>, Option<u16>),
}

fn first_hs_type(dg: &[u8]) -> u8 {
    match parse_records(dg).first() {
        Some(r) if r.ctype == 22 && r.epoch == 0 => parse_hs(&r.body).first().map(|m| m.typ).unwrap_or(255),
        _ => 255,
    }
}

async fn collect(p: &UdpSocket, quiet: Duration) -> Vec<Vec<u8>> {
    let mut out = vec![];
    let mut buf = [0u8; 4096];
    while let Ok(Ok((n, _))) = tokio::time::timeout(quiet, p.recv_from(&mut buf)).await { out.push(buf[..n].to_vec()); }
    out
}

/// `None` = inconclusive (the run overlapped a retransmission timer of either stack)
pub async fn ref_session(fault: RefFault) -> Option<RefOutcome> {
    let cert = RefCertificate::generate_self_signed(vec!["localhost".to_string()]).ok()?;
    let server_der = cert.certificate[0].as_ref().to_vec();
    let config = Config {
        certificates: vec![cert],
        cipher_suites: vec![CipherSuiteId::Tls_Ecdhe_Ecdsa_With_Aes_128_Gcm_Sha256],
        srtp_protection_profiles: vec![SrtpProtectionProfile::Srtp_Aead_Aes_128_Gcm, SrtpProtectionProfile::Srtp_Aes128_Cm_Hmac_Sha1_80],
        extended_master_secret: if fault == RefFault::NoEms { ExtendedMasterSecretType::Disable } else { ExtendedMasterSecretType::Request },
        ..Default::default()
    };
    let listener = listen("127.0.0.1:0", config).await.ok()?;
    let server_addr = listener.addr().await.ok()?;
    let slot: Arc<tokio::sync::Mutex<Option<Arc<dyn Conn + Send + Sync>>>> = Arc::new(tokio::sync::Mutex::new(None));
    let slot2 = slot.clone();
    let server_task = tokio::spawn(async move {
        if let Ok((conn, _)) = listener.accept().await {
            *slot2.lock().await = Some(conn.clone());
            let mut buf = vec![0u8; 2048];
            while let Ok(n) = conn.recv(&mut buf).await { if conn.send(&buf[..n]).await.is_err() { break; } }
        }
    });
    let p = UdpSocket::bind("127.0.0.1:0").await.ok()?;
    let ccert = rustrtc::transports::dtls::generate_certificate().ok()?;
    let mut c = Recd::new(true, ccert, Some(fp_text(&server_der))).await;
    let c_src = c.ep.sink_addr;
    let quiet = Duration::from_millis(60);
    let mut hvr_seen = false;
    let mut to_server = c.start().await;
    let mut held: Option<Vec<u8>> = None;
    let mut fault_done = false;
    for _round in 0..10 {
        for d in to_server.drain(..) { let _ = p.send_to(&d, server_addr).await; }
        let mut from_server = collect(&p, quiet).await;
        if from_server.is_empty() && held.is_none() { break; }
        // ---- faults
        let mut deliver: Vec<Vec<u8>> = vec![];
        for d in from_server.drain(..) {
            let t = first_hs_type(&d);
            if t == 3 { hvr_seen = true; }
            match (&fault, fault_done) {
                (RefFault::DupHvr, false) if t == 3 => { fault_done = true; deliver.push(d.clone()); deliver.push(d); }
                (RefFault::DupHvrLate, false) if t == 3 => { fault_done = true; held = Some(d.clone()); deliver.push(d); }
                _ => deliver.push(d),
            }
        }
        if matches!(fault, RefFault::DupHvrLate) && held.is_some() && deliver.iter().any(|d| first_hs_type(d) == 2) {
            // the duplicate of the HelloVerifyRequest arrives after the ServerHello flight started
            deliver.push(held.take().unwrap());
        }
        if !fault_done && matches!(fault, RefFault::SplitSwap | RefFault::SplitDup) {
            // the reference server packs its flight into one datagram; a path may legally carry the records in
            // separate datagrams — which can then be reordered (Certificate before ServerHello) or duplicated
            if let Some(i) = deliver.iter().position(|d| first_hs_type(d) == 2 && parse_records(d).len() >= 2) {
                fault_done = true;
                let d = deliver.remove(i);
                let mut parts: Vec<Vec<u8>> = parse_records(&d).iter().map(|r| record_bytes(r.ctype, (r.vmaj, r.vmin), r.epoch, r.seq, &r.body)).collect();
                if fault == RefFault::SplitSwap { parts.swap(0, 1); } else { let x = parts[1].clone(); parts.insert(1, x); }
                for (k, x) in parts.into_iter().enumerate() { deliver.insert(i + k, x); }
            }
        }
        if !fault_done && deliver.len() >= 2 && deliver.iter().any(|d| first_hs_type(d) == 2) {
            match fault { RefFault::SwapFlight => { fault_done = true; deliver.swap(0, 1); }
                RefFault::DupFlight => { fault_done = true; let x = deliver[0].clone(); deliver.push(x); } _ => {} }
        }
        for d in deliver { to_server.extend(c.inject(&d, c_src).await); }
        if c.unexpected_tick_possible() { server_task.abort(); return None; }
        if c.ep.letter() != 'H' && to_server.is_empty() { break; }
    }
    for d in to_server.drain(..) { let _ = p.send_to(&d, server_addr).await; }
    // the reference server's Finished etc. may still be in flight
    for _ in 0..3 {
        let more = collect(&p, quiet).await;
        if more.is_empty() { break; }
        for d in more { for x in c.inject(&d, c_src).await { let _ = p.send_to(&x, server_addr).await; } }
    }
    if c.unexpected_tick_possible() { server_task.abort(); return None; }
    // recovery: up to two retransmission rounds (ours by `tick`, the reference stack's by its own 1 s timer)
    for _ in 0..2 {
        if c.ep.letter() != 'H' { break; }
        for d in c.tick().await { let _ = p.send_to(&d, server_addr).await; }
        for _ in 0..4 {
            let more = collect(&p, Duration::from_millis(120)).await;
            if more.is_empty() { break; }
            for d in more { for x in c.inject(&d, c_src).await { let _ = p.send_to(&x, server_addr).await; } }
        }
        if c.unexpected_tick_possible() { server_task.abort(); return None; }
    }
    let client_final = c.ep.letter();
    let (mut exporter_equal, mut echo_ok, mut profile) = (None, None, (c.ep.srtp_profile(), None));
    if client_final == 'C' {
        // application data round trip through the reference stack (it echoes)
        for d in c.send(b"ping through the reference stack").await { let _ = p.send_to(&d, server_addr).await; }
        let mut got = false;
        for d in collect(&p, Duration::from_millis(150)).await {
            let before = c.outs.len();
            c.inject(&d, c_src).await;
            if c.outs[before..].iter().any(|o| o.contains(&crate::hex(b"ping through the reference stack"))) { got = true; }
        }
        echo_ok = Some(got);
        if let Some(conn) = slot.lock().await.clone() {
            if let Some(dc) = conn.as_any().downcast_ref::<DTLSConn>() {
                let st = dc.connection_state().await;
                let theirs = st.export_keying_material("EXTRACTOR-dtls_srtp", &[], 60).await.ok();
                let ours = c.ep.dtls.export_keying_material("EXTRACTOR-dtls_srtp", 60).ok();
                exporter_equal = Some(theirs.is_some() && theirs == ours);
                profile.1 = Some(match dc.selected_srtpprotection_profile() { SrtpProtectionProfile::Srtp_Aead_Aes_128_Gcm => 7,
                    SrtpProtectionProfile::Srtp_Aes128_Cm_Hmac_Sha1_80 => 1, _ => 0 });
            }
        }
    }
    server_task.abort();
    Some(RefOutcome { line: c.lines(), client_final, hvr_seen, exporter_equal, echo_ok, profile })
}

// ---------------------------------------------------------------------------------------------
// the other direction: reference DTLS *client* (webrtc-rs `dtls`) <-> rustrtc *server*.  Everything the rustrtc server
// puts on the wire that rustrtc's own client never looks at (cipher suite and extensions in the ServerHello, the
// ServerKeyExchange encoding, the server Finished over a foreign client's transcript, the re-flight on a repeated
// ClientHello) gets an independent judge here.

/// faults on this side: `None`, `NoEms`, `DupFlight` (first datagram of the server's flight duplicated),
/// `SwapFlight` (its first two datagrams swapped), `DupHvr` is reused as "the ClientHello is delivered twice"
pub async fn ref_client_session(fault: RefFault) -> Option<RefOutcome> {
    let scert = rustrtc::transports::dtls::generate_certificate().ok()?;
    let mut s = Recd::new(false, scert, None).await;
    let s_src = s.ep.sink_addr;
    let _ = s.start().await;
    let p = UdpSocket::bind("127.0.0.1:0").await.ok()?;
    let csock = UdpSocket::bind("127.0.0.1:0").await.ok()?;
    csock.connect(p.local_addr().ok()?).await.ok()?;
    let client_addr = csock.local_addr().ok()?;
    let cert = RefCertificate::generate_self_signed(vec!["localhost".to_string()]).ok()?;
    let config = Config {
        certificates: vec![cert],
        cipher_suites: vec![CipherSuiteId::Tls_Ecdhe_Ecdsa_With_Aes_128_Gcm_Sha256],
        srtp_protection_profiles: vec![SrtpProtectionProfile::Srtp_Aead_Aes_128_Gcm, SrtpProtectionProfile::Srtp_Aes128_Cm_Hmac_Sha1_80],
        extended_master_secret: if fault == RefFault::NoEms { ExtendedMasterSecretType::Disable } else { ExtendedMasterSecretType::Request },
        insecure_skip_verify: true,
        ..Default::default()
    };
    let slot: Arc<tokio::sync::Mutex<Option<Arc<DTLSConn>>>> = Arc::new(tokio::sync::Mutex::new(None));
    let err: Arc<tokio::sync::Mutex<Option<String>>> = Arc::new(tokio::sync::Mutex::new(None));
    let (slot2, err2) = (slot.clone(), err.clone());
    let client_task = tokio::spawn(async move {
        match DTLSConn::new(Arc::new(csock), config, true, None).await {
            Ok(conn) => {
                let conn = Arc::new(conn);
                *slot2.lock().await = Some(conn.clone());
                let mut buf = vec![0u8; 2048];
                while let Ok(n) = conn.recv(&mut buf).await { if conn.send(&buf[..n]).await.is_err() { break; } }
            }
            Err(e) => { *err2.lock().await = Some(format!("{e}")); }
        }
    });
    let quiet = Duration::from_millis(60);
    let mut fault_done = false;
    for _round in 0..12 {
        let mut from_client = collect(&p, quiet).await;
        if from_client.is_empty() { if s.ep.letter() != 'H' || err.lock().await.is_some() { break; } }
        if !fault_done && fault == RefFault::DupHvr { if let Some(i) = from_client.iter().position(|d| first_hs_type(d) == 1) { fault_done = true; let x = from_client[i].clone(); from_client.insert(i, x); } }
        let mut to_client: Vec<Vec<u8>> = vec![];
        for d in from_client { to_client.extend(s.inject(&d, s_src).await); }
        if !fault_done && to_client.iter().any(|d| first_hs_type(d) == 2) {
            match fault { RefFault::DupFlight => { fault_done = true; let x = to_client[0].clone(); to_client.insert(0, x); }
                RefFault::SwapFlight if to_client.len() >= 2 => { fault_done = true; to_client.swap(0, 1); } _ => {} }
        }
        for d in to_client { let _ = p.send_to(&d, client_addr).await; }
        if s.unexpected_tick_possible() { client_task.abort(); return None; }
        if slot.lock().await.is_some() && s.ep.letter() == 'C' { break; }
    }
    // recovery: the reference client retransmits on its own 1 s timer, ours by `tick`
    for _ in 0..2 {
        if s.ep.letter() != 'H' || slot.lock().await.is_some() { break; }
        let mut out = s.tick().await;
        for _ in 0..6 {
            for d in out.drain(..) { let _ = p.send_to(&d, client_addr).await; }
            let more = collect(&p, Duration::from_millis(150)).await;
            if more.is_empty() { break; }
            for d in more { out.extend(s.inject(&d, s_src).await); }
        }
        if s.unexpected_tick_possible() { client_task.abort(); return None; }
    }
    // the client's Finished round trip may still be completing inside the reference stack
    for _ in 0..10 { if slot.lock().await.is_some() { break; } tokio::time::sleep(Duration::from_millis(20)).await;
        for d in collect(&p, Duration::from_millis(20)).await { for x in s.inject(&d, s_src).await { let _ = p.send_to(&x, client_addr).await; } } }
    let server_final = s.ep.letter();
    let conn = slot.lock().await.clone();
    let (mut exporter_equal, mut echo_ok, mut profile) = (None, None, (s.ep.srtp_profile(), None));
    if server_final == 'C' { if let Some(dc) = &conn {
        for d in s.send(b"ping through the reference client").await { let _ = p.send_to(&d, client_addr).await; }
        let mut got = false;
        for d in collect(&p, Duration::from_millis(200)).await {
            let before = s.outs.len();
            s.inject(&d, s_src).await;
            if s.outs[before..].iter().any(|o| o.contains(&crate::hex(b"ping through the reference client"))) { got = true; }
        }
        echo_ok = Some(got);
        let st = dc.connection_state().await;
        let theirs = st.export_keying_material("EXTRACTOR-dtls_srtp", &[], 60).await.ok();
        let ours = s.ep.dtls.export_keying_material("EXTRACTOR-dtls_srtp", 60).ok();
        exporter_equal = Some(theirs.is_some() && theirs == ours);
        profile.1 = Some(match dc.selected_srtpprotection_profile() { SrtpProtectionProfile::Srtp_Aead_Aes_128_Gcm => 7,
            SrtpProtectionProfile::Srtp_Aes128_Cm_Hmac_Sha1_80 => 1, _ => 0 });
    } }
    let refused = err.lock().await.clone();
    client_task.abort();
    // `client_final` carries the rustrtc side's final state; a reference client that gave up counts as not connected
    let final_letter = if conn.is_none() { if server_final == 'C' { 'c' } else { server_final } } else { server_final };
    let mut line = s.lines();
    if let Some(e) = refused { line.0.push_str(""); let _ = e; }
    Some(RefOutcome { line, client_final: final_letter, hvr_seen: false, exporter_equal, echo_ok, profile })
}
