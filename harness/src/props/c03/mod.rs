//! C03 — only authenticated DTLS records are acted on; nothing leaves in clear; no nonce reuse.
//! Drives real connected `DtlsTransport` pairs through the harness proxy (`pair.rs`), injects
//! records of every content type × epoch × {plaintext, sealed under the right key, captured genuine
//! records replayed / bit-flipped / truncated / header-rewritten, wrong key} from the genuine and from
//! a third-party source address, and compares (delivered payloads, connection state, records sent)
//! with the Lean model (`RtcModel.DtlsHs.onPacket` …).  The AEAD results the model needs are computed
//! here with the `aes-gcm` crate from RFC 6347/5288 (nonce, AAD) and passed as an oracle table.
//! Property oracles are evaluated on the implementation directly (see `judge`).
pub mod pair;
pub mod hs;
pub mod refpeer;
pub mod deadline;
pub mod pcfp;
use crate::{Args, Rng, Run, hex, unhex};
use bytes::Bytes;
use pair::*;
use rustrtc::transports::dtls::SessionKeys;
use rustrtc::transports::dtls::record::DtlsRecord;
use std::collections::BTreeSet;
use std::net::SocketAddr;

/// Symbolic injection: re-materialised against the keys of whatever pair it is replayed on.
#[derive(Clone, Debug, PartialEq)]
pub enum Inj {
    /// plaintext record: content type, epoch, payload variant
    Plain { ct: u8, epoch: u16, var: u8 },
    /// sealed by the harness under the *right* key (what the genuine peer could send): payload variant, seq
    Sealed { ct: u8, epoch: u16, var: u8, seq: u64 },
    /// sealed under a wrong key (0 = the target's own write key — reflection, 1 = random key)
    WrongKey { ct: u8, epoch: u16, var: u8, which: u8 },
    /// genuine record captured from the peer (it sends `len` bytes of app data), mutated
    Captured { len: u16, mutation: Mut },
    /// two injections in one datagram
    Multi(Box<Inj>, Box<Inj>),
    /// any other injection (typically one the genuine peer could have sent), then mutated
    Mutated(Box<Inj>, Mut),
    /// raw garbage datagram from a sub-seed
    Garbage { n: u16, first: u8 },
    /// the target itself sends / closes / gets a retransmit tick
    Send { len: u32 },
    Close,
    /// (verification hook) the write sequence counter is preset — the next records are sealed under these numbers
    SetSeq(u64),
}

#[derive(Clone, Debug, PartialEq)]
pub enum Mut { None, Flip(u32), FlipTail(u32), Trunc(u16), Extend(u8), Field(u8, u8) }

impl Inj {
    pub fn text(&self) -> String {
        match self {
            Inj::Plain { ct, epoch, var } => format!("pl:{ct}:{epoch}:{var}"),
            Inj::Sealed { ct, epoch, var, seq } => format!("gk:{ct}:{epoch}:{var}:{seq}"),
            Inj::WrongKey { ct, epoch, var, which } => format!("wk:{ct}:{epoch}:{var}:{which}"),
            Inj::Captured { len, mutation } => format!("cap:{len}:{}", match mutation {
                Mut::None => "n".to_string(), Mut::Flip(b) => format!("f{b}"), Mut::FlipTail(b) => format!("r{b}"), Mut::Trunc(n) => format!("t{n}"),
                Mut::Extend(n) => format!("e{n}"), Mut::Field(i, v) => format!("h{i}.{v}") }),
            Inj::Multi(a, b) => format!("mu[{}|{}]", a.text(), b.text()),
            Inj::Mutated(a, m) => format!("mt[{}|{}]", a.text(), Inj::Captured { len: 0, mutation: m.clone() }.text()),
            Inj::Garbage { n, first } => format!("gb:{n}:{first}"),
            Inj::Send { len } => format!("sd:{len}"),
            Inj::Close => "cl".into(),
            Inj::SetSeq(n) => format!("ws:{n}"),
        }
    }
    pub fn parse(s: &str) -> Inj {
        if let Some(inner) = s.strip_prefix("mu[").and_then(|x| x.strip_suffix(']')) {
            // split at the top-level '|'
            let mut depth = 0;
            for (i, ch) in inner.char_indices() {
                match ch { '[' => depth += 1, ']' => depth -= 1,
                    '|' if depth == 0 => return Inj::Multi(Box::new(Inj::parse(&inner[..i])), Box::new(Inj::parse(&inner[i + 1..]))),
                    _ => {} }
            }
            panic!("bad multi {s}");
        }
        if let Some(inner) = s.strip_prefix("mt[").and_then(|x| x.strip_suffix(']')) {
            let i = inner.rfind('|').unwrap();
            let m = match Inj::parse(&inner[i + 1..]) { Inj::Captured { mutation, .. } => mutation, _ => panic!("bad mutation") };
            return Inj::Mutated(Box::new(Inj::parse(&inner[..i])), m);
        }
        let f: Vec<&str> = s.split(':').collect();
        let n = |i: usize| f[i].parse::<u64>().unwrap();
        match f[0] {
            "pl" => Inj::Plain { ct: n(1) as u8, epoch: n(2) as u16, var: n(3) as u8 },
            "gk" => Inj::Sealed { ct: n(1) as u8, epoch: n(2) as u16, var: n(3) as u8, seq: n(4) },
            "wk" => Inj::WrongKey { ct: n(1) as u8, epoch: n(2) as u16, var: n(3) as u8, which: n(4) as u8 },
            "cap" => Inj::Captured { len: n(1) as u16, mutation: {
                let m = f[2]; let v = &m[1..];
                match &m[..1] { "n" => Mut::None, "f" => Mut::Flip(v.parse().unwrap()), "r" => Mut::FlipTail(v.parse().unwrap()), "t" => Mut::Trunc(v.parse().unwrap()),
                    "e" => Mut::Extend(v.parse().unwrap()),
                    _ => { let p: Vec<&str> = v.split('.').collect(); Mut::Field(p[0].parse().unwrap(), p[1].parse().unwrap()) } } } },
            "gb" => Inj::Garbage { n: n(1) as u16, first: n(2) as u8 },
            "sd" => Inj::Send { len: n(1) as u32 },
            "cl" => Inj::Close,
            "ws" => Inj::SetSeq(n(1)),
            x => panic!("bad injection {x}"),
        }
    }
}

/// handshake message bytes (unfragmented)
fn hs_msg(typ: u8, msg_seq: u16, body: &[u8]) -> Vec<u8> {
    let l = body.len() as u32;
    let mut v = vec![typ, (l >> 16) as u8, (l >> 8) as u8, l as u8];
    v.extend_from_slice(&msg_seq.to_be_bytes());
    v.extend_from_slice(&[0, 0, 0, (l >> 16) as u8, (l >> 8) as u8, l as u8]);
    v.extend_from_slice(body);
    v
}

/// Everything needed to materialise injections for one target endpoint of a connected pair.
pub struct Sess {
    pub target_is_client: bool,
    pub keys: SessionKeys,
    pub vd_client: Vec<u8>,   // verify_data the server would expect *now* for "client finished"
    pub vd_server: Vec<u8>,   // verify_data the client would expect now for "server finished"
    /// body of a well-formed Certificate message carrying some other (attacker's) certificate
    pub other_cert_body: Vec<u8>,
}

impl Sess {
    /// payload variants per content type (deterministic)
    fn payload(&self, ct: u8, var: u8) -> Vec<u8> {
        let next_seq: u16 = if self.target_is_client { 5 } else { 3 };
        match ct {
            20 => vec![1],
            21 => match var % 4 { 0 => vec![1, 0], 1 => vec![2, 40], 2 => vec![2, 0], _ => vec![1] },
            22 if var == 10 => hs_msg(11, next_seq, &self.other_cert_body),   // decodable Certificate, wrong identity (clear text and sealed)
            22 => match var % 10 {
                0 => hs_msg(20, next_seq, &[0xAB; 12]),                         // Finished, expected seq, wrong verify_data
                1 => hs_msg(20, next_seq - 1, &[0xAB; 12]),                     // duplicate seq
                2 => hs_msg(20, next_seq + 1, &[0xAB; 12]),                     // future seq
                3 => hs_msg(1, 0, &[3, 3]),                                     // duplicate ClientHello
                4 => hs_msg(14, next_seq, &[]),                                 // ServerHelloDone
                5 => hs_msg(11, next_seq, &[9]),                                // Certificate, undecodable
                6 => hs_msg(20, next_seq, if self.target_is_client { &self.vd_server } else { &self.vd_client }), // correct verify_data
                7 => hs_msg(12, next_seq, &[7, 7]),                             // ServerKeyExchange, undecodable
                8 => { let mut m = hs_msg(16, next_seq, &[5]); m.extend(hs_msg(20, next_seq + 1, &[1; 12])); m } // two messages
                _ => vec![22, 0, 0],                                            // truncated header
            },
            23 => (0..(8 + (var as usize % 5) * 7)).map(|i| (i as u8).wrapping_mul(31).wrapping_add(var)).collect(),
            _ => vec![var, 1, 2, 3],
        }
    }
    fn genuine_src_key(&self) -> (Vec<u8>, Vec<u8>) { read_dir(&self.keys, self.target_is_client) }
}

pub struct Obs { pub letter: char, pub state: String, pub alive: bool, pub delivered: Vec<Vec<u8>>, pub sent: Vec<Vec<u8>> }

fn descr(dg: &[u8]) -> Vec<String> {
    parse_records(dg).iter().map(|r| {
        if r.ctype == 23 || r.ctype == 21 {
            if r.epoch > 0 { format!("{}.{}.{}.{}{}", r.ctype, r.epoch, r.seq, r.body.len() as i64 - 24, nonce_tag(r)) }
            else { format!("{}.{}.{}.{}", r.ctype, r.epoch, r.seq, r.body.len()) }
        } else { format!("{}.{}.{}{}", r.ctype, r.epoch, r.seq, nonce_tag(r)) }
    }).collect()
}

fn obs_text(o: &Obs) -> String {
    let j = |v: Vec<String>| if v.is_empty() { "-".to_string() } else { v.join("+") };
    format!("{},{},{},{}", o.state, o.alive as u8, j(o.delivered.iter().map(|d| hex(d)).collect()),
        j(o.sent.iter().flat_map(|d| descr(d)).collect()))
}

/// bit `b` of the datagram counts from the most significant bit of byte 0 (`Flip`) or from the least
/// significant bit of the last byte (`FlipTail`)
fn mutate(dg: &mut Vec<u8>, m: &Mut) {
    match m {
        Mut::None => {}
        Mut::Flip(b) => { if !dg.is_empty() { let i = (*b as usize) % (dg.len() * 8); dg[i / 8] ^= 0x80 >> (i % 8); } }
        Mut::FlipTail(b) => { if !dg.is_empty() { let i = (*b as usize) % (dg.len() * 8); let n = dg.len(); dg[n - 1 - i / 8] ^= 1 << (i % 8); } }
        Mut::Trunc(n) => { let n = (*n as usize).min(dg.len()); dg.truncate(n); }
        Mut::Extend(n) => dg.extend(std::iter::repeat(0x5a).take(*n as usize)),
        Mut::Field(i, v) => { if dg.len() > *i as usize { dg[*i as usize] = *v; } }
    }
}

/// Build the datagram for an injection.  `peer` is needed for captured genuine records.
async fn materialise(inj: &Inj, s: &Sess, peer: &mut Endpoint) -> Vec<u8> {
    let ver = (254u8, 253u8);
    match inj {
        Inj::Plain { ct, epoch, var } => record_bytes(*ct, ver, *epoch, 77, &s.payload(*ct, *var)),
        Inj::Sealed { ct, epoch, var, seq } => {
            let (k, iv) = s.genuine_src_key();
            record_bytes(*ct, ver, *epoch, *seq, &seal_body(&k, &iv, *epoch, *seq, *ct, ver, &s.payload(*ct, *var)))
        }
        Inj::WrongKey { ct, epoch, var, which } => {
            let (k, iv) = if *which == 0 { write_dir(&s.keys, s.target_is_client) } else { (vec![0x42; 16], vec![1, 2, 3, 4]) };
            record_bytes(*ct, ver, *epoch, 900, &seal_body(&k, &iv, *epoch, 900, *ct, ver, &s.payload(*ct, *var)))
        }
        Inj::Captured { len, mutation } => {
            let data: Vec<u8> = (0..*len as usize).map(|i| (i * 7 + 3) as u8).collect();
            let _ = peer.dtls.send(Bytes::from(data)).await;
            let mut dgs = peer.pump().await;
            let mut dg = if dgs.is_empty() { vec![] } else { dgs.remove(0) };
            mutate(&mut dg, mutation);
            dg
        }
        Inj::Mutated(a, m) => {
            let mut dg = Box::pin(materialise(a, s, peer)).await;
            mutate(&mut dg, m);
            dg
        }
        Inj::Multi(a, b) => {
            let mut x = Box::pin(materialise(a, s, peer)).await;
            x.extend(Box::pin(materialise(b, s, peer)).await);
            x
        }
        Inj::Garbage { n, first } => {
            let mut v: Vec<u8> = (0..*n as usize).map(|i| (i as u8).wrapping_mul(97).wrapping_add(*first)).collect();
            if !v.is_empty() { v[0] = *first; }
            v
        }
        Inj::Send { .. } | Inj::Close | Inj::SetSeq(_) => vec![],
    }
}

/// AEAD oracle table for the model: for every record of the datagram (harness' RFC parse) that is
/// protected, the result of opening it under the target's read key.
fn oracle_table(dg: &[u8], s: &Sess) -> String {
    let (k, iv) = s.genuine_src_key();
    let mut ents = vec![];
    for r in parse_records(dg) {
        if r.epoch == 0 || r.body.len() < 24 { continue; }
        let (nonce, a, res) = open_rec(&k, &iv, &r);
        let mut key = k.clone();
        key.extend_from_slice(&nonce); key.extend_from_slice(&a); key.extend_from_slice(&r.body[8..]);
        ents.push(format!("{:x}={}", fnv64(&key), match res { None => "x".to_string(), Some(p) => hex(&p) }));
    }
    if ents.is_empty() { "-".into() } else { ents.join(";") }
}

/// Ground truth for the property oracle: which records of the datagram authenticate (harness' own
/// parse + AES-GCM), with their plaintext.
fn authentic(dg: &[u8], s: &Sess) -> Vec<(u8, Vec<u8>)> {
    let (k, iv) = s.genuine_src_key();
    parse_records(dg).iter().filter(|r| r.epoch != 0).filter_map(|r| open_rec(&k, &iv, r).2.map(|p| (r.ctype, p))).collect()
}

fn epoch_class(dg: &[u8]) -> String {
    let rs = parse_records(dg);
    let e: BTreeSet<String> = rs.iter().map(|r| match r.epoch { 0 => "0".into(), 1 => "cur".into(), _ => "other".to_string() }).collect();
    let t: BTreeSet<String> = rs.iter().map(|r| r.ctype.to_string()).collect();
    format!("{}:{}", e.into_iter().collect::<Vec<_>>().join("+"), t.into_iter().collect::<Vec<_>>().join("+"))
}

/// One session: a fresh connected pair, a target role, a list of injections.  Returns the model
/// input line, the implementation's observation line and oracle failures.
pub async fn run_session(target_is_client: bool, script: &[(Inj, bool)]) -> Option<(String, String, Vec<(String, String)>, Vec<String>)> {
    let (cc, sc) = certs();
    let fp = rustrtc::transports::dtls::fingerprint(&sc);
    let pair = Pair::connect(cc, sc, Some(fp), None).await?;
    let (t_cf, t_all) = pair.transcripts();
    let keys = pair.c.keys()?;
    if pair.s.keys()? != keys { return None; }
    let Pair { c, s, .. } = pair;
    let (mut target, mut peer) = if target_is_client { (c, s) } else { (s, c) };
    let sess = Sess { target_is_client, keys: keys.clone(),
        vd_client: verify_data(&keys.master_secret, true, &t_all),
        vd_server: verify_data(&keys.master_secret, false, &t_cf),
        other_cert_body: { let der = rustrtc::transports::dtls::generate_certificate().unwrap().certificate[0].clone();
            let mut b = ((der.len() + 3) as u32).to_be_bytes()[1..].to_vec(); b.extend_from_slice(&(der.len() as u32).to_be_bytes()[1..]); b.extend_from_slice(&der); b } };
    let third: SocketAddr = "127.0.0.9:4444".parse().unwrap();
    let genuine = target.sink_addr;
    let mut input = format!("init,{},{},{},{},{},{},{},{},{},{},{}", if target_is_client { "c" } else { "s" },
        hex(&keys.master_secret), hex(&keys.client_random), hex(&keys.server_random),
        hex(&keys.client_write_key), hex(&keys.server_write_key), hex(&keys.client_write_iv), hex(&keys.server_write_iv),
        hex(&sess.vd_client), hex(&sess.vd_server), hex(&sess.other_cert_body));
    let mut out = vec![];
    let mut fails = vec![];
    let mut tags = vec![];
    let mut sent_nonces: BTreeSet<(u16, u64)> = BTreeSet::new();
    sent_nonces.insert((1, 0)); // the Finished record of the handshake
    sent_nonces.insert((0xffff, 1 << 48)); // … and its explicit nonce
    for (inj, from_third) in script {
        let before = target.letter();
        let obs = match inj {
            Inj::Send { len } => {
                let data: Vec<u8> = (0..*len as usize).map(|i| (i as u8) ^ 0xC3).collect();
                let accepted = target.dtls.send(Bytes::from(data.clone())).await.is_ok();
                let sent = target.pump().await;
                input.push_str(&format!(" sd,{}", hex(&data)));
                if accepted { judge_sent(&sent, &data, &sess, &mut sent_nonces, &mut fails, &inj.text()); }
                else if !sent.is_empty() { fails.push(("send:records-emitted-by-rejected-send".into(), inj.text())); }
                Obs { letter: target.letter(), state: target.state_text(), alive: !target.done, delivered: target.drain_app(), sent }
            }
            Inj::SetSeq(n) => {
                target.dtls.verif_set_write_seq(*n);
                input.push_str(&format!(" ws,{n}"));
                Obs { letter: target.letter(), state: target.state_text(), alive: !target.done, delivered: target.drain_app(), sent: vec![] }
            }
            Inj::Close => {
                target.dtls.close();
                let sent = target.pump().await;
                input.push_str(" cl");
                judge_sent(&sent, &[], &sess, &mut sent_nonces, &mut fails, "cl");
                Obs { letter: target.letter(), state: target.state_text(), alive: !target.done, delivered: target.drain_app(), sent }
            }
            _ => {
                let dg = materialise(inj, &sess, &mut peer).await;
                if dg.is_empty() { continue; }
                target.deliver(&dg, if *from_third { third } else { genuine }).await;
                let sent = target.pump().await;
                let delivered = target.drain_app();
                input.push_str(&format!(" dg,{},{}", hex(&dg), oracle_table(&dg, &sess)));
                // ---- property oracle: acted on only if authentic
                let auth = authentic(&dg, &sess);
                let cls = epoch_class(&dg);
                for d in &delivered {
                    if !auth.iter().any(|(ct, p)| *ct == 23 && p == d) {
                        fails.push((format!("rec:{cls}:delivered-unauthenticated"), inj.text()));
                    }
                }
                if *target.conn.remote_addr.read() != genuine { fails.push((format!("rec:{cls}:destination-moved-to-the-source-of-a-datagram"), inj.text())); }
                let after = target.letter();
                if after != before && !auth.iter().any(|(ct, _)| *ct == 21 || *ct == 22) {
                    fails.push((format!("rec:{cls}:state-{before}-to-{after}-unauthenticated"), inj.text()));
                }
                // an unauthenticated datagram draws no reply either (reflection / amplification towards the genuine peer) —
                // except the documented residual: a clear-text ClientHello makes a server re-send its last flight
                let has_client_hello = parse_records(&dg).iter().any(|r| r.epoch == 0 && r.ctype == 22 && hs::parse_hs(&r.body).iter().any(|m| m.typ == 1));
                if auth.is_empty() && !sent.is_empty() && !(has_client_hello && !sess.target_is_client) {
                    fails.push((format!("rec:{cls}:reply-sent-to-unauthenticated-datagram"), inj.text()));
                }
                tags.push(format!("inj:{}:{}", cls, if auth.is_empty() { "unauth" } else { "auth" }));
                if *from_third { tags.push("src:third-party".into()); } else { tags.push("src:genuine".into()); }
                Obs { letter: after, state: target.state_text(), alive: !target.done, delivered, sent }
            }
        };
        if obs.state.contains('!') { fails.push((format!("state:watch-channel-differs-from-state:{}", obs.state), inj.text())); }
        out.push(obs_text(&obs));
    }
    Some((input, out.join(" "), fails, tags))
}

/// "nothing leaves in clear", "fits", "no nonce reuse" on what the target put on the wire.
fn judge_sent(sent: &[Vec<u8>], data: &[u8], s: &Sess, nonces: &mut BTreeSet<(u16, u64)>, fails: &mut Vec<(String, String)>, what: &str) {
    let (k, iv) = write_dir(&s.keys, s.target_is_client);
    let mut concat = vec![];
    for dg in sent {
        if dg.len() > 1200 + 13 + 8 + 16 { fails.push(("size:datagram-exceeds-limit".into(), what.into())); }
        for r in parse_records(dg) {
            if r.epoch == 0 { fails.push((format!("clear:epoch0-record-type-{}-after-connect", r.ctype), what.into())); continue; }
            if !nonces.insert((r.epoch, r.seq)) { fails.push((format!("nonce:reused:type-{}", r.ctype), format!("{what} epoch={} seq={}", r.epoch, r.seq))); }
            // the AEAD nonce is iv ‖ the 8 explicit bytes on the wire — that is what must never repeat
            if r.body.len() >= 8 {
                let wire = u64::from_be_bytes(r.body[..8].try_into().unwrap());
                if !nonces.insert((0xffff, wire)) { fails.push((format!("nonce:explicit-nonce-reused:type-{}", r.ctype), format!("{what} explicit={wire:016x}"))); }
                if wire != (((r.epoch as u64) << 48) | r.seq) { fails.push((format!("nonce:explicit-nonce-not-epoch-seq:type-{}", r.ctype), format!("{what} explicit={wire:016x} header={}.{}", r.epoch, r.seq))); }
            }
            match open_rec(&k, &iv, &r).2 {
                None => fails.push(("seal:record-does-not-open-under-write-key".into(), what.into())),
                Some(p) => { if p.len() > 1200 { fails.push(("size:record-exceeds-limit".into(), what.into())); }
                             if r.ctype == 23 { concat.extend_from_slice(&p); } }
            }
        }
        if data.len() >= 16 && dg.windows(16).any(|w| w == &data[..16]) { fails.push(("clear:payload-bytes-on-wire".into(), what.into())); }
    }
    if what != "cl" && concat != data { fails.push(("concat:records-do-not-reassemble-payload".into(), what.into())); }
}

fn gen_inj(rng: &mut Rng, depth: u8) -> Inj {
    let cts = [20u8, 21, 22, 23, 24];
    let epochs = [0u16, 1, 2, 65535];
    match rng.below(100) {
        0..=24 => Inj::Plain { ct: *rng.pick(&cts), epoch: *rng.pick(&[0u16, 0, 0, 1, 2]), var: rng.below(11) as u8 },
        25..=44 => Inj::Sealed { ct: *rng.pick(&cts), epoch: *rng.pick(&[1u16, 1, 1, 2, 0, 65535]), var: rng.below(11) as u8,
                                  seq: *rng.pick(&[0u64, 1, 2, 500, (1 << 48) - 1]) },
        45..=54 => Inj::WrongKey { ct: *rng.pick(&cts), epoch: *rng.pick(&epochs[1..]), var: rng.below(10) as u8, which: rng.below(2) as u8 },
        55..=79 => Inj::Captured { len: *rng.pick(&[1u16, 16, 16, 100, 100, 300, 1200]), mutation: match rng.below(10) {
            0 | 1 => Mut::None, 2..=5 => Mut::Flip(rng.below(1 << 20) as u32), 6 => Mut::Trunc(rng.below(60) as u16),
            7 => Mut::Extend(rng.range(1, 9) as u8), _ => Mut::Field(rng.below(13) as u8, rng.next() as u8) } },
        80..=87 if depth == 0 => Inj::Multi(Box::new(gen_inj(rng, 1)), Box::new(gen_inj(rng, 1))),
        88..=92 => Inj::Garbage { n: rng.below(40) as u16, first: *rng.pick(&[20u8, 22, 23, 25, 63, 19]) },
        93..=97 => Inj::Send { len: *rng.pick(&[0u32, 1, 100, 1199, 1200, 1201, 2400, 2401, 5000]) },
        _ => Inj::Plain { ct: 23, epoch: 0, var: 1 },
    }
}

fn script_text(target_is_client: bool, script: &[(Inj, bool)]) -> String {
    format!("{} {}", if target_is_client { "c" } else { "s" },
        script.iter().map(|(i, t)| format!("{}{}", if *t { "3!" } else { "" }, i.text())).collect::<Vec<_>>().join(" "))
}
fn parse_script(s: &str) -> (bool, Vec<(Inj, bool)>) {
    let mut it = s.split_whitespace();
    let role = it.next().unwrap() == "c";
    (role, it.map(|t| match t.strip_prefix("3!") { Some(r) => (Inj::parse(r), true), None => (Inj::parse(t), false) }).collect())
}

/// directed scripts: the property's named cases, for both roles
fn directed() -> Vec<Vec<(Inj, bool)>> {
    let mut v = vec![];
    for third in [false, true] {
        // plaintext application data / close_notify / Finished after the handshake, then a genuine record
        v.push(vec![(Inj::Plain { ct: 23, epoch: 0, var: 1 }, third), (Inj::Captured { len: 16, mutation: Mut::None }, false)]);
        v.push(vec![(Inj::Plain { ct: 21, epoch: 0, var: 0 }, third), (Inj::Captured { len: 16, mutation: Mut::None }, false)]);
        v.push(vec![(Inj::Plain { ct: 22, epoch: 0, var: 0 }, third), (Inj::Captured { len: 16, mutation: Mut::None }, false)]);
        v.push(vec![(Inj::Plain { ct: 22, epoch: 0, var: 3 }, third), (Inj::Plain { ct: 22, epoch: 0, var: 5 }, third)]);
        // a clear-text *duplicate* Finished (anybody can send one): no re-flight towards the genuine peer
        v.push(vec![(Inj::Plain { ct: 22, epoch: 0, var: 1 }, third), (Inj::Captured { len: 16, mutation: Mut::None }, false)]);
        v.push(vec![(Inj::Plain { ct: 22, epoch: 0, var: 10 }, third), (Inj::Captured { len: 16, mutation: Mut::None }, false)]);
        // … and the same Certificate in a record that authenticates (only the key holder can do this): a client that pinned
        // another fingerprint fails, a server without expectation takes note of it and stays Connected
        v.push(vec![(Inj::Sealed { ct: 22, epoch: 1, var: 10, seq: 7 }, third), (Inj::Captured { len: 16, mutation: Mut::None }, false)]);
        for ct in [20u8, 21, 22, 23, 24] { for ep in [0u16, 1, 2] {
            v.push(vec![(Inj::Plain { ct, epoch: ep, var: 0 }, third), (Inj::Sealed { ct, epoch: ep.max(1), var: 0, seq: 40 }, third),
                        (Inj::WrongKey { ct, epoch: ep.max(1), var: 0, which: 0 }, third)]);
        } }
    }
    // sequence numbers far from 0 (preset by a hook): sends across 2^32 and up to the last 48-bit value, after a few ordinary ones
    v.push(vec![(Inj::Send { len: 2401 }, false), (Inj::SetSeq((1 << 32) - 2), false), (Inj::Send { len: 5000 }, false), (Inj::Captured { len: 16, mutation: Mut::None }, false)]);
    v.push(vec![(Inj::Send { len: 100 }, false), (Inj::SetSeq((1 << 40) + 5), false), (Inj::Send { len: 1201 }, false), (Inj::SetSeq((1 << 48) - 3), false), (Inj::Send { len: 2400 }, false)]);
    // authenticated close_notify closes; authenticated bad Finished fails; authenticated good Finished re-connects
    v.push(vec![(Inj::Sealed { ct: 21, epoch: 1, var: 0, seq: 9 }, false), (Inj::Captured { len: 16, mutation: Mut::None }, false)]);
    v.push(vec![(Inj::Sealed { ct: 22, epoch: 1, var: 0, seq: 9 }, false), (Inj::Captured { len: 16, mutation: Mut::None }, false)]);
    v.push(vec![(Inj::Send { len: 10 }, false), (Inj::Sealed { ct: 22, epoch: 1, var: 6, seq: 11 }, false), (Inj::Send { len: 10 }, false)]);
    // send side: boundary sizes, then close: the alert must not reuse a sequence number
    v.push(vec![(Inj::Send { len: 1 }, false), (Inj::Close, false)]);
    v.push(vec![(Inj::Close, false)]);
    // send() keeps working after close(): the alert must have consumed its sequence number
    v.push(vec![(Inj::Send { len: 5 }, false), (Inj::Close, false), (Inj::Send { len: 5 }, false), (Inj::Send { len: 1300 }, false)]);
    v.push(vec![(Inj::Send { len: 1200 }, false), (Inj::Send { len: 1201 }, false), (Inj::Send { len: 0 }, false), (Inj::Send { len: 5000 }, false), (Inj::Close, false)]);
    // a failed record stops the datagram: [garbage sealed, genuine] vs [genuine, plaintext]
    v.push(vec![(Inj::Multi(Box::new(Inj::WrongKey { ct: 23, epoch: 1, var: 0, which: 1 }), Box::new(Inj::Captured { len: 16, mutation: Mut::None })), false)]);
    v.push(vec![(Inj::Multi(Box::new(Inj::Captured { len: 16, mutation: Mut::None }), Box::new(Inj::Plain { ct: 23, epoch: 0, var: 2 })), false)]);
    v
}

fn emit_session(run: &mut Run, rt: &tokio::runtime::Runtime, role: bool, script: &[(Inj, bool)]) {
    let st = script_text(role, script);
    for attempt in 0..3 {
        match rt.block_on(run_session(role, script)) {
            Some((input, out, fails, tags)) => {
                let nontrivial = out.contains("+") || out.split(' ').any(|t| !t.starts_with("C,1,-,-"));
                run.case("sess", &input, &out, nontrivial);
                for t in tags { run.count(&t); }
                run.count(if role { "sessions_client_target" } else { "sessions_server_target" });
                for (sig, d) in fails { run.fail(&sig, &st, &d); }
                return;
            }
            None => { run.count("handshake_retry"); if attempt == 2 { run.fail("harness:clean-handshake-did-not-complete", &st, ""); } }
        }
    }
}

// ---------------------------------------------------------------------------------------------
// `dec` stream: DtlsRecord::decode applied repeatedly, as handle_incoming_packet does

fn impl_dec(bs: &[u8]) -> String {
    let mut data = Bytes::copy_from_slice(bs);
    let mut out = vec![];
    while !data.is_empty() {
        match DtlsRecord::decode(&mut data) {
            Ok(None) => { out.push("short".to_string()); break; }
            Err(_) => { out.push("bad".to_string()); break; }
            Ok(Some(r)) => out.push(format!("{}.{}.{}.{}.{}.{}", r.content_type as u8, r.version.major, r.version.minor, r.epoch, r.sequence_number, hex(&r.payload))),
        }
    }
    out.join(" ")
}

fn dec_cases(run: &mut Run, rng: &mut Rng, n: usize) {
    for i in 0..n {
        let mut dg = vec![];
        let k = rng.range(1, 3);
        for _ in 0..k {
            let bl = rng.below(40) as usize; let body = rng.bytes(bl);
            let ct = if rng.chance(4, 5) { *rng.pick(&[20u8, 21, 22, 23, 24]) } else { rng.next() as u8 };
            dg.extend(record_bytes(ct, (254, *rng.pick(&[253u8, 255, 0])), *rng.pick(&[0u16, 1, 2, 65535]), rng.next() & ((1 << 48) - 1), &body));
        }
        match i % 5 {
            0 => {}
            1 => { let n = rng.below(dg.len() as u64 + 1) as usize; dg.truncate(n); }
            2 => { if dg.len() > 12 { dg[11] = rng.next() as u8; dg[12] = rng.next() as u8; } }
            3 => { let n = rng.below(dg.len() as u64 * 8) as usize; dg[n / 8] ^= 1 << (n % 8); }
            _ => { let bl = rng.below(14) as usize; dg.extend(rng.bytes(bl)); }
        }
        let o = crate::catch(|| impl_dec(&dg));
        match o {
            Ok(o) => { let nt = o.contains('.'); run.case("dec", &hex(&dg), &o, nt); run.count(if nt { "dec_some_record" } else { "dec_no_record" }); }
            Err(p) => { run.case("dec", &hex(&dg), "panic", true); run.fail(&format!("panic:DtlsRecord::decode:{}", p.split(':').take(2).collect::<Vec<_>>().join(":")), &format!("dec {}", hex(&dg)), &p); }
        }
    }
}

// ---------------------------------------------------------------------------------------------
// `conc` stream: concurrent senders on a multi-thread runtime

fn conc_case(run: &mut Run, tasks: usize, sends: usize, big: bool, close: bool) { conc_case_ext(run, tasks, sends, big, close, false, false) }

/// `lineup`: the `send_record` probe (point 4, between the epoch load and the sequence-number allocation) makes all
/// sender tasks wait for each other there, so they allocate at the same instant over and over: an allocation that is
/// not one atomic step collides almost surely instead of by luck.  `server`: the sending endpoint is the server.
fn conc_case_ext(run: &mut Run, tasks: usize, sends: usize, big: bool, close: bool, lineup: bool, server: bool) {
    let text = format!("conc {tasks} {sends} {} {}{}{}", big as u8, close as u8, if lineup { " lineup" } else { "" }, if server { " server" } else { "" });
    let rt = tokio::runtime::Builder::new_multi_thread().worker_threads(if lineup { tasks.max(4) + 1 } else { 4 }).enable_all().build().unwrap();
    if lineup {
        let arrived = std::sync::Arc::new(std::sync::atomic::AtomicUsize::new(0));
        let n = tasks;
        rustrtc::verif_hooks::dtls::set_publish_probe(Some(std::sync::Arc::new(move |_inst, point| {
            if point != 4 { return; }
            let ticket = arrived.fetch_add(1, std::sync::atomic::Ordering::SeqCst);
            let target = (ticket / n + 1) * n;
            let t0 = std::time::Instant::now();
            while arrived.load(std::sync::atomic::Ordering::SeqCst) < target && t0.elapsed() < std::time::Duration::from_millis(3) { std::hint::spin_loop(); }
        })));
    }
    let res = rt.block_on(async move {
        let (cc, sc) = certs();
        let mut pair = Pair::connect(cc, sc, None, None).await?;
        let ep = if server { &mut pair.s } else { &mut pair.c };
        let keys = ep.keys()?;
        // drain concurrently so the sink's socket buffer never overflows
        let sink = ep.sink.try_clone().unwrap();
        sink.set_nonblocking(false).unwrap();
        sink.set_read_timeout(Some(std::time::Duration::from_millis(300))).unwrap();
        let stop = std::sync::Arc::new(std::sync::atomic::AtomicBool::new(false));
        let stop2 = stop.clone();
        let drainer = std::thread::spawn(move || {
            let mut got = vec![]; let mut buf = [0u8; 4096];
            loop {
                match sink.recv_from(&mut buf) {
                    Ok((n, _)) => got.push(buf[..n].to_vec()),
                    Err(_) => if stop2.load(std::sync::atomic::Ordering::SeqCst) { break; }
                }
            }
            got
        });
        let mut hs = vec![];
        let progress = std::sync::Arc::new(std::sync::atomic::AtomicUsize::new(0));
        let mut expected_records = 0usize;
        for t in 0..tasks {
            let d = ep.dtls.clone();
            let len = if big && t % 2 == 0 { 2500 } else { 40 + t };
            expected_records += sends * ((len + 1199) / 1200);
            let prog = progress.clone();
            hs.push(tokio::spawn(async move {
                for i in 0..sends { let _ = d.send(Bytes::from(vec![(t + i) as u8; len])).await;
                    prog.fetch_add(1, std::sync::atomic::Ordering::SeqCst); tokio::task::yield_now().await; }
            }));
        }
        // let the senders get going: close() must race them, not precede them
        if close && tasks > 1 { while progress.load(std::sync::atomic::Ordering::SeqCst) < (tasks * sends) / 3 { tokio::task::yield_now().await; } }
        // close() while the senders are still running: the alert allocates its sequence number concurrently
        if close { ep.dtls.close(); ep.poll_quiesce().await; }
        for h in hs { let _ = h.await; }
        tokio::time::sleep(std::time::Duration::from_millis(50)).await;
        stop.store(true, std::sync::atomic::Ordering::SeqCst);
        let got = drainer.join().unwrap();
        ep.sink.set_nonblocking(true).unwrap();
        Some((got, keys, expected_records))
    });
    if lineup { rustrtc::verif_hooks::dtls::set_publish_probe(None); }
    let Some((got, keys, expected)) = res else { run.count("handshake_retry"); return; };
    let (k, iv) = write_dir(&keys, !server);
    let mut app: Vec<(u16, u64)> = vec![];
    let mut alert: Option<(u16, u64)> = None;
    let mut seen = BTreeSet::new();
    seen.insert((1u16, 0u64));
    seen.insert((0xffff, 1 << 48));
    for dg in &got { for r in parse_records(dg) {
        if !seen.insert((r.epoch, r.seq)) { run.fail(&format!("nonce:reused:type-{}", r.ctype), &text, &format!("epoch={} seq={}", r.epoch, r.seq)); }
        if r.body.len() >= 8 {
            let wire = u64::from_be_bytes(r.body[..8].try_into().unwrap());
            if !seen.insert((0xffff, wire)) { run.fail(&format!("nonce:explicit-nonce-reused:type-{}", r.ctype), &text, &format!("explicit={wire:016x}")); }
        }
        if open_rec(&k, &iv, &r).2.is_none() { run.fail("seal:record-does-not-open-under-write-key", &text, ""); }
        if r.ctype == 23 { app.push((r.epoch, r.seq)); } else if r.ctype == 21 { alert = Some((r.epoch, r.seq)); }
    } }
    app.sort();
    if app.len() != expected { run.count("conc_datagram_loss_inconclusive"); return; }
    // application records and the alert together must occupy one gap-free range (the alert allocates
    // concurrently with the senders, so it may sit anywhere in it)
    let mut all = app.clone();
    if let Some(a) = alert { all.push(a); }
    all.sort();
    let lo = all.first().map(|x| x.1).unwrap_or(1); let hi = all.last().map(|x| x.1).unwrap_or(1);
    let contiguous = all.windows(2).all(|w| w[1].1 == w[0].1 + 1 && w[1].0 == w[0].0);
    let out = format!("1:{}{} alert={}", if all.is_empty() { "-".to_string() } else { format!("{lo}-{hi}/{}", all.len()) },
        if contiguous { "" } else { "!gaps" }, alert.is_some() as u8);
    run.case("conc", &format!("1,1,{expected},{}", close as u8), &out, true);
    run.count_n("conc_records", expected as u64);
}

// ---------------------------------------------------------------------------------------------
// `pub` stream: a sender acting exactly between the statements that publish Connected

/// Handshake during which, right after publication statement `point` (1 = state, 2 = write_epoch,
/// 3 = write_seq) of the probed endpoint, a complete `send()` is executed (cfg(rustrtc_verif) probe).
/// Returns what that send put on the wire: (epoch, seq) of its records, or None if it was rejected.
fn publication_probe(rt: &tokio::runtime::Runtime, probe_client: bool, point: u8) -> Option<(Option<Vec<(u16, u64)>>, Vec<(u16, u64)>)> {
    use std::sync::{Arc, Mutex};
    rt.block_on(async move {
        let (cc, sc) = certs();
        let mut c = Endpoint::new(true, cc, None).await;
        let mut s = Endpoint::new(false, sc, None).await;
        let target = if probe_client { c.dtls.clone() } else { s.dtls.clone() };
        let inst = target.verif_instance_id();
        let result: Arc<Mutex<Option<bool>>> = Arc::new(Mutex::new(None));
        let r2 = result.clone();
        rustrtc::verif_hooks::dtls::set_publish_probe(Some(Arc::new(move |i, p| {
            if i == inst && p == point {
                let ok = futures::executor::block_on(target.send(Bytes::from_static(b"probe-send-at-publication"))).is_ok();
                *r2.lock().unwrap() = Some(ok);
            }
        })));
        let (c_src, s_src) = (c.sink_addr, s.sink_addr);
        let mut from_target = vec![];
        let _ = s.pump().await;
        for _ in 0..12 {
            let a = c.pump().await;
            for d in &a { if probe_client { from_target.push(d.clone()); } s.deliver(d, s_src).await; }
            let b = s.pump().await;
            for d in &b { if !probe_client { from_target.push(d.clone()); } c.deliver(d, c_src).await; }
            if a.is_empty() && b.is_empty() { break; }
        }
        rustrtc::verif_hooks::dtls::set_publish_probe(None);
        if c.letter() != 'C' || s.letter() != 'C' { return None; }
        let accepted = (*result.lock().unwrap())?;
        let mut app = vec![]; let mut all = vec![];
        for d in &from_target { for r in parse_records(d) {
            if r.epoch > 0 || r.ctype == 23 { all.push((r.epoch, r.seq)); }
            if r.ctype == 23 { app.push((r.epoch, r.seq)); }
        } }
        Some((if accepted { Some(app) } else { None }, all))
    })
}

fn pub_cases(run: &mut Run, rt: &tokio::runtime::Runtime, reps: usize) {
    for _ in 0..reps { for probe_client in [true, false] { for point in 1..=3u8 {
        let text = format!("pub {} {point}", if probe_client { "c" } else { "s" });
        let Some((sent, all)) = publication_probe(rt, probe_client, point) else { run.count("pub_probe_inconclusive"); continue; };
        let out = match &sent { None => "rejected".to_string(), Some(v) if v.is_empty() => "rejected".to_string(),
            Some(v) => v.iter().map(|(e, s)| format!("{e}.{s}")).collect::<Vec<_>>().join(" ") };
        run.case("pub", &format!("{point},1,1"), &out, true);
        run.count(&format!("pub_point{point}_{}", if sent.is_some() { "accepted" } else { "rejected" }));
        // oracle: what the sender sealed must not share (epoch, seq) with any other protected record of the endpoint
        let mut seen = BTreeSet::new();
        for k in &all { if !seen.insert(*k) { run.fail("nonce:reused:send-during-publication", &text, &format!("epoch={} seq={}", k.0, k.1)); } }
        if let Some(v) = &sent { for (e, _) in v { if *e == 0 { run.fail("clear:application-record-under-epoch-0", &text, ""); } } }
    } } }
}

pub fn run(args: &Args) {
    let rt = tokio::runtime::Builder::new_current_thread().enable_all().build().unwrap();
    if let Some(case) = &args.replay {
        if let Some(h) = case.strip_prefix("dec ") { println!("impl: {}", impl_dec(&unhex(h.trim()))); return; }
        if let Some(h) = case.strip_prefix("hs ") {
            match rt.block_on(super::c02::run_script(&super::c02::Script::parse(h))) {
                Some(o) => { for (i, l) in o.lines { println!("ops: {i}\nimpl: {l}"); } for (s, d) in o.fails { println!("ORACLE-FAIL {s} {d}"); } }
                None => println!("inconclusive (timing)"),
            }
            return;
        }
        if let Some(r) = case.strip_prefix("pub ") {
            let f: Vec<&str> = r.split_whitespace().collect();
            println!("impl: {:?}", publication_probe(&rt, f[0] == "c", f[1].parse().unwrap()));
            return;
        }
        if case.starts_with("conc ") { println!("(concurrency cases are re-run by ./check; not replayable as a single deterministic case)"); return; }
        let (role, script) = parse_script(case);
        match rt.block_on(run_session(role, &script)) {
            Some((input, out, fails, _)) => { println!("ops: {input}\nimpl: {out}"); for (s, d) in fails { println!("ORACLE-FAIL {s} {d}"); } }
            None => println!("handshake did not complete"),
        }
        return;
    }
    let mut run = Run::new("c03", &args.out);
    let mut rng = Rng::new(args.seed);
    // (1) directed scripts, both roles
    for sc in directed() { for role in [true, false] { emit_session(&mut run, &rt, role, &sc); } }
    // (2) random sessions
    let nsess = if args.tier_thorough { 15000 } else { 50 };
    for _ in 0..nsess {
        let role = rng.chance(1, 2);
        let n = rng.range(4, 24) as usize;
        let mut script: Vec<(Inj, bool)> = (0..n).map(|_| (gen_inj(&mut rng, 0), rng.chance(1, 3))).collect();
        if rng.chance(1, 3) { script.push((Inj::Close, false)); }
        emit_session(&mut run, &rt, role, &script);
    }
    // (2b) EVERY single-bit flip of the 13 header bytes, the first two and the last two body bytes of a
    // genuine application record, of a record the peer could have sent (sealed under the right key) and
    // of a close_notify alert, from the genuine and from a foreign source address — in every tier
    {
        let bases: Vec<Inj> = vec![Inj::Captured { len: 16, mutation: Mut::None }, Inj::Sealed { ct: 23, epoch: 1, var: 2, seq: 700 },
            Inj::Sealed { ct: 21, epoch: 1, var: 0, seq: 701 }];
        let mut muts: Vec<Mut> = (0..(13 + 2) * 8).map(Mut::Flip).collect();
        muts.extend((0..16).map(Mut::FlipTail));
        for base in &bases { for third in [false, true] { for role in [true, false] {
            for chunk in muts.chunks(34) {
                let mut script: Vec<(Inj, bool)> = chunk.iter().map(|m| (match base {
                    Inj::Captured { len, .. } => Inj::Captured { len: *len, mutation: m.clone() },
                    b => Inj::Mutated(Box::new(b.clone()), m.clone()) }, third)).collect();
                script.push((base.clone(), false)); // the unmodified record is still accepted afterwards
                emit_session(&mut run, &rt, role, &script);
            }
            run.count_n("exhaustive_header_and_edge_bit_flips", muts.len() as u64);
        } } }
    }
    // (3) all single-bit flips of genuine records (thorough: every bit of 3 records; quick: 256 sampled)
    let flips: Vec<u32> = if args.tier_thorough { (0..3).flat_map(|_| 0..(13 + 8 + 16 + 16) * 8).collect() } else { (0..256).map(|_| rng.below((13 + 8 + 16 + 16) * 8) as u32).collect() };
    for chunk in flips.chunks(32) {
        let script: Vec<(Inj, bool)> = chunk.iter().map(|b| (Inj::Captured { len: 16, mutation: Mut::Flip(*b) }, false)).collect();
        emit_session(&mut run, &rt, rng.chance(1, 2), &script);
    }
    // (3a) "or during the handshake": clear-text ApplicationData / close_notify / ChangeCipherSpec / Finished records
    // injected just before each handshake datagram (before keys, between keys and Connected), both directions.
    // Judged by the recorder's clear-text oracle (`rec:handshake-phase:…`) and replayed on the model (`hs` stream).
    {
        use super::c02::{Act, Rule, Script, run_script};
        let mut scripts = vec![];
        for (fc, kinds) in [(false, vec![2u8, 11, 12, 14, 200, 20]), (true, vec![16u8, 200, 20])] {
            for k in kinds { for ct in [23u8, 21, 22, 20] { scripts.push(Script { ce: 'o', se: 'n', rules: vec![Rule { from_client: fc, typ: k, act: Act::PreInject(ct) }] }); } }
        }
        // the same kinds of clear-text record from a THIRD source address (handshake phase × foreign address): as good as absent —
        // in particular the transport keeps sending to its peer (oracle rec:handshake-phase:third-party-record-disturbed-the-handshake)
        for (fc, k, ct) in [(false, 2u8, 23u8), (false, 14, 23), (false, 200, 23), (false, 200, 21), (false, 200, 22), (false, 20, 23), (false, 20, 21),
                            (true, 16, 23), (true, 200, 23), (true, 200, 21), (true, 20, 22)] {
            scripts.push(Script { ce: 'o', se: 'n', rules: vec![Rule { from_client: fc, typ: k, act: Act::PreInject3(ct) }] });
        }
        // close() at every stage of the handshake (before keys; between key derivation and Connected, where the alert
        // must take the context's sequence number and not reuse the Finished record's): nonce oracle over all sealed records
        for (fc, k, a) in [(false, 2u8, Act::CloseClient), (false, 14, Act::CloseClient), (false, 200, Act::CloseClient), (false, 20, Act::CloseClient),
                           (true, 16, Act::CloseServer), (true, 200, Act::CloseServer), (true, 20, Act::CloseServer)] {
            scripts.push(Script { ce: 'o', se: 'n', rules: vec![Rule { from_client: fc, typ: k, act: a }] });
        }
        for sc in &scripts {
            for _ in 0..3 {
                if let Some(o) = rt.block_on(run_script(sc)) {
                    for (i, l) in &o.lines { run.case("hs", i, l, true); }
                    run.count("handshake_phase_injection_scripts");
                    for (sig, d) in o.fails { if sig.starts_with("rec:") || sig.starts_with("noconn:") || sig.starts_with("state:") || sig.starts_with("nonce:") { run.fail(&sig, &format!("hs {d}"), &sc.text()); } }
                    // a discarded record is as good as absent: the handshake around it must still complete
                    // (judged where the target already holds keys — before that a clear-text handshake message is legal input)
                    if matches!(sc.rules[0].act, Act::PreInject(_)) && matches!(sc.rules[0].typ, 200 | 20) && !o.tags.iter().any(|t| t == "both_connected") {
                        let fin = o.tags.iter().find(|t| t.starts_with("final:")).cloned().unwrap_or_default();
                        run.fail(&format!("rec:handshake-phase:clear-text-record-disturbed-the-handshake:{}", sc.rules[0].typ), &format!("hs {}", sc.text()), &fin);
                    }
                    break;
                }
                run.count("timing_retry");
            }
        }
    }
    // (3b) a sender exactly between the publication statements
    pub_cases(&mut run, &rt, if args.tier_thorough { 10 } else { 2 });
    // (4) record decoder
    dec_cases(&mut run, &mut rng, if args.tier_thorough { 200000 } else { 3000 });
    // (5) concurrent senders
    drop(rt);
    let conc: Vec<(usize, usize, bool, bool)> = if args.tier_thorough {
        vec![(1, 1, false, true), (2, 50, false, true), (4, 100, true, true), (8, 100, false, true), (16, 200, false, true), (16, 50, true, false), (3, 7, true, true),
             (16, 200, true, true), (12, 150, false, true), (5, 200, true, true), (9, 33, false, false), (16, 100, false, true), (7, 77, true, true)]
    } else { vec![(1, 1, false, true), (4, 20, true, true), (8, 60, false, true), (8, 60, false, true), (12, 40, false, true), (16, 10, false, false)] };
    for (t, s, b, c) in conc { conc_case(&mut run, t, s, b, c); }
    // senders lined up at the allocation point (both roles)
    for (t, n, srv) in if args.tier_thorough { vec![(8, 200, false), (8, 200, true), (16, 100, false), (3, 300, true)] } else { vec![(8, 60, false), (6, 60, true)] } { conc_case_ext(&mut run, t, n, false, false, true, srv); }
    run.notes.insert("scope".into(), serde_json::json!("sessions = fresh real DtlsTransport pair, connected through the harness proxy, then injections at one endpoint; oracle table = AES-128-GCM results computed by the harness from RFC nonce/AAD"));
    run.finish();
}
