//! Handshake-level harness shared by C02 and C11: a recorder around one real endpoint that logs
//! every datagram delivered to it together with (a) the implementation's observable reaction and
//! (b) the ground-truth facts the Lean model needs about the handshake bodies it was shown
//! (decodes via the repo's own pub decoders; digests, ECDSA verification and AEAD via sha2 / p256 /
//! aes-gcm here), so the model can replay exactly that history (`hs` stream of the C02 driver).
use super::pair::*;
use crate::{hex};
use bytes::Bytes;
use p256::ecdsa::signature::Verifier;
use rustrtc::transports::dtls::handshake::{CertificateMessage, ClientHello, ClientKeyExchange, HelloVerifyRequest, ServerHello, ServerKeyExchange};
use rustrtc::transports::dtls::{Certificate, SessionKeys};
use sha2::{Digest, Sha256};
use std::collections::BTreeMap;
use std::net::SocketAddr;

#[derive(Clone, Debug)]
pub struct HsM { pub typ: u8, pub total: u32, pub seq: u16, pub off: u32, pub body: Vec<u8> }

/// handshake messages of a clear-text handshake record payload (harness' own parse)
pub fn parse_hs(p: &[u8]) -> Vec<HsM> {
    let mut out = vec![];
    let mut i = 0;
    while p.len() >= i + 12 {
        let fl = u32::from_be_bytes([0, p[i + 9], p[i + 10], p[i + 11]]) as usize;
        if p.len() < i + 12 + fl { break; }
        out.push(HsM { typ: p[i], total: u32::from_be_bytes([0, p[i + 1], p[i + 2], p[i + 3]]), seq: u16::from_be_bytes([p[i + 4], p[i + 5]]),
            off: u32::from_be_bytes([0, p[i + 6], p[i + 7], p[i + 8]]), body: p[i + 12..i + 12 + fl].to_vec() });
        i += 12 + fl;
    }
    out
}

pub fn hs_bytes(typ: u8, total: u32, seq: u16, off: u32, body: &[u8]) -> Vec<u8> {
    let l = body.len() as u32;
    let mut v = vec![typ, (total >> 16) as u8, (total >> 8) as u8, total as u8];
    v.extend_from_slice(&seq.to_be_bytes());
    v.extend_from_slice(&[(off >> 16) as u8, (off >> 8) as u8, off as u8, (l >> 16) as u8, (l >> 8) as u8, l as u8]);
    v.extend_from_slice(body);
    v
}

pub fn fp_text(der: &[u8]) -> String {
    Sha256::digest(der).iter().map(|b| format!("{:02X}", b)).collect::<Vec<_>>().join(":")
}

fn cert_key(der: &[u8]) -> Option<p256::ecdsa::VerifyingKey> {
    use x509_parser::prelude::FromDer;
    let (_, c) = x509_parser::certificate::X509Certificate::from_der(der).ok()?;
    match c.public_key().parsed().ok()? {
        x509_parser::public_key::PublicKey::EC(p) => p256::ecdsa::VerifyingKey::from_sec1_bytes(p.data()).ok(),
        _ => None,
    }
}

/// RFC 4492 §5.4: signature over client_random ‖ server_random ‖ ServerECDHParams
fn ske_sig_ok(leaf: &[u8], cr: &[u8], sr: &[u8], ske: &ServerKeyExchange) -> bool {
    let Some(vk) = cert_key(leaf) else { return false };
    let Ok(sig) = p256::ecdsa::Signature::from_der(&ske.signature) else { return false };
    let mut m = cr.to_vec();
    m.extend_from_slice(sr);
    m.push(ske.curve_type);
    m.extend_from_slice(&ske.named_curve.to_be_bytes());
    m.push(ske.public_key.len() as u8);
    m.extend_from_slice(&ske.public_key);
    vk.verify(&m, &sig).is_ok()
}

/// extension scan per RFC 5246 §7.4.1.4: (extended_master_secret present, use_srtp profiles)
fn scan_ext(ext: &[u8]) -> (bool, Vec<u16>, Option<u16>) {
    let (mut ems, mut profiles, mut selected) = (false, vec![], None);
    let mut i = 0;
    while ext.len() >= i + 4 {
        let t = u16::from_be_bytes([ext[i], ext[i + 1]]);
        let l = u16::from_be_bytes([ext[i + 2], ext[i + 3]]) as usize;
        if ext.len() < i + 4 + l { break; }
        let d = &ext[i + 4..i + 4 + l];
        if t == 23 { ems = true; }
        if t == 14 && d.len() >= 2 {
            let n = u16::from_be_bytes([d[0], d[1]]) as usize;
            let mut j = 2;
            while j < 2 + n && j + 1 < d.len() { profiles.push(u16::from_be_bytes([d[j], d[j + 1]])); j += 2; }
            if d.len() >= 5 { selected = Some(u16::from_be_bytes([d[2], d[3]])); }
        }
        i += 4 + l;
    }
    (ems, profiles, selected)
}

pub fn keys_text(k: &SessionKeys) -> String {
    format!("{}/{}/{}/{}/{}/{}/{}", hex(&k.master_secret), hex(&k.client_random), hex(&k.server_random),
        hex(&k.client_write_key), hex(&k.server_write_key), hex(&k.client_write_iv), hex(&k.server_write_iv))
}
pub fn keys_id(k: &SessionKeys) -> String {
    let mut v = k.master_secret.clone();
    for x in [&k.client_random, &k.server_random, &k.client_write_key, &k.server_write_key, &k.client_write_iv, &k.server_write_iv] { v.extend_from_slice(x); }
    format!("{:x}", fnv64(&v))
}

/// an epoch>0 Handshake record whose body is exactly one self-consistent unfragmented handshake message was not
/// sealed (an AEAD output passes this test with probability ~2^-70): the code sends such a record when it reaches
/// its Finished without keys
fn looks_clear_hs(body: &[u8]) -> bool {
    if body.len() < 12 { return false; }
    let total = ((body[1] as usize) << 16) | ((body[2] as usize) << 8) | body[3] as usize;
    let off = ((body[6] as usize) << 16) | ((body[7] as usize) << 8) | body[8] as usize;
    let flen = ((body[9] as usize) << 16) | ((body[10] as usize) << 8) | body[11] as usize;
    off == 0 && total == flen && 12 + flen == body.len()
}

pub fn descr_hs(dg: &[u8]) -> Vec<String> {
    parse_records(dg).iter().map(|r| {
        if r.ctype == 23 || r.ctype == 21 {
            // (an endpoint never sends these in clear; one closed between key derivation and its own ChangeCipherSpec seals
            // its close_notify under an epoch-0 header)
            if r.epoch > 0 || r.body.len() >= 24 { format!("{}.{}.{}.{}{}", r.ctype, r.epoch, r.seq, r.body.len() as i64 - 24, format!(".n{}", hex(&r.body[..8]))) }
            else { format!("{}.{}.{}.{}", r.ctype, r.epoch, r.seq, r.body.len()) }
        } else if r.ctype == 22 && (r.epoch == 0 || looks_clear_hs(&r.body)) {
            match parse_hs(&r.body).first() {
                Some(m) => format!("22.{}.{}:{}.{}.{}", r.epoch, r.seq, m.typ, m.seq, m.body.len()),
                None => format!("22.{}.{}:?", r.epoch, r.seq),
            }
        } else { format!("{}.{}.{}{}", r.ctype, r.epoch, r.seq, nonce_tag(r)) }
    }).collect()
}

/// One recorded endpoint.
pub struct Recd {
    pub ep: Endpoint,
    pub expected: Option<String>,
    pub ops: Vec<String>,
    pub outs: Vec<String>,
    pub facts: BTreeMap<String, String>,
    pub keys: Vec<SessionKeys>,
    /// (handshake type, body) of the clear-text handshake messages this endpoint emitted, in order
    pub own: Vec<(u8, Vec<u8>)>,
    certs_seen: Vec<Vec<u8>>,
    srs_seen: Vec<Vec<u8>>,
    last_ske_share: Option<Vec<u8>>,
    /// fragments of the handshake message being reassembled: (message_seq, bytes so far), appended in
    /// arrival order like the code does
    frag: (u16, Vec<u8>),
    frag2: (u16, Vec<u8>),
    pub ticks_done: u32,
    /// certificates (DER) and verified facts, for the property oracle
    pub shown_cert_fps: Vec<String>,
    pub sig_ok_under: Vec<String>,
    /// property-level failures seen while recording (clear-text records acted on)
    pub clear_violations: Vec<String>,
    /// body of the ServerKeyExchange learned last (the one whose share the next key derivation uses)
    last_ske_body: Option<Vec<u8>>,
    /// at the moment keys were derived: fingerprints of the leaves under which that last ServerKeyExchange verifies
    /// (with this client's random and any server random seen)
    pub key_share_signed_by: Vec<String>,
    /// every sealed record (epoch >= 1) this endpoint ever sent: (epoch, seq, explicit nonce) -> record bytes
    sealed_sent: BTreeMap<(u16, u64), Vec<u8>>,
    sealed_nonces: BTreeMap<Vec<u8>, Vec<u8>>,
}

impl Recd {
    pub async fn new(is_client: bool, cert: Certificate, expected: Option<String>) -> Recd {
        let ep = Endpoint::new(is_client, cert, expected.clone()).await;
        // the key log is keyed by an address: drop whatever an earlier transport at the same address left behind
        let _ = rustrtc::verif_hooks::dtls::take_keys(ep.dtls.verif_instance_id());
        Recd { ep, expected, ops: vec![], outs: vec![], facts: BTreeMap::new(), keys: vec![], own: vec![], certs_seen: vec![],
            srs_seen: vec![], last_ske_share: None, frag: (0, vec![]), frag2: (0, vec![]), ticks_done: 0, shown_cert_fps: vec![], sig_ok_under: vec![], clear_violations: vec![], last_ske_body: None, key_share_signed_by: vec![], sealed_sent: BTreeMap::new(), sealed_nonces: BTreeMap::new() }
    }

    fn note_sent(&mut self, sent: &[Vec<u8>]) {
        // "no two records under one key reuse a nonce", handshake included: Finished, close_notify and application
        // records share the write key; a byte-identical record is a retransmission, anything else is a reuse
        for dg in sent { for r in parse_records(dg) {
            if r.epoch == 0 || r.body.len() < 8 || (r.ctype == 22 && looks_clear_hs(&r.body)) { continue; }
            let bytes = record_bytes(r.ctype, (r.vmaj, r.vmin), r.epoch, r.seq, &r.body);
            if let Some(prev) = self.sealed_sent.get(&(r.epoch, r.seq)) { if *prev != bytes {
                self.clear_violations.push(format!("nonce:reused:handshake-phase:epoch-{}-seq-{}:type-{}", r.epoch, r.seq, r.ctype)); } }
            else { self.sealed_sent.insert((r.epoch, r.seq), bytes.clone()); }
            let en = r.body[..8].to_vec();
            if let Some(prev) = self.sealed_nonces.get(&en) { if *prev != bytes {
                self.clear_violations.push(format!("nonce:explicit-nonce-reused:handshake-phase:type-{}", r.ctype)); } }
            else { self.sealed_nonces.insert(en, bytes); }
        } }
        for dg in sent { for r in parse_records(dg) {
            if r.ctype == 22 && r.epoch == 0 { for m in parse_hs(&r.body) { if m.off == 0 && m.total as usize == m.body.len() { self.own.push((m.typ, m.body)); } } }
        } }
    }

    fn obs(&mut self, sent: &[Vec<u8>]) -> String {
        let j = |v: Vec<String>| if v.is_empty() { "-".to_string() } else { v.join("+") };
        let delivered = self.ep.drain_app();
        format!("{},{},{},{}", self.ep.state_text(), !self.ep.done as u8, j(delivered.iter().map(|d| hex(d)).collect()),
            j(sent.iter().flat_map(|d| descr_hs(d)).collect()))
    }

    /// first poll of the run loop (the client emits its ClientHello)
    pub async fn start(&mut self) -> Vec<Vec<u8>> {
        let sent = self.ep.pump().await;
        self.ep.started = std::time::Instant::now();
        self.note_sent(&sent);
        let o = self.obs(&sent);
        self.outs.push(o);
        sent
    }

    fn client_random(&self) -> Vec<u8> {
        self.own.iter().find(|(t, _)| *t == 1).map(|(_, b)| b.get(2..34).unwrap_or(&[]).to_vec()).unwrap_or_default()
    }

    /// facts about the handshake bodies in `dg` (clear-text records, and protected ones we can open)
    fn learn(&mut self, dg: &[u8]) {
        let keys = self.keys.last().cloned();
        for r in parse_records(dg) {
            if r.ctype != 22 { continue; }
            let payload = if r.epoch == 0 { Some(r.body.clone()) } else {
                keys.as_ref().and_then(|k| { let (kk, iv) = read_dir(k, self.ep.is_client); open_rec(&kk, &iv, &r).2 }) };
            let Some(p) = payload else { continue };
            for m in parse_hs(&p) {
                if m.total as usize == m.body.len() { self.learn_body(m.typ, &m.body); continue; }
                // (a second reassembly that also takes the new tail of a fragment overlapping the buffer)
                if self.frag2.0 != m.seq || m.off == 0 { self.frag2 = (m.seq, vec![]); }
                if (m.off as usize) <= self.frag2.1.len() && m.off as usize + m.body.len() > self.frag2.1.len() {
                    let skip = self.frag2.1.len() - m.off as usize;
                    self.frag2.1.extend_from_slice(&m.body[skip..]);
                    if self.frag2.1.len() >= m.total as usize { let b = std::mem::take(&mut self.frag2.1); self.learn_body(m.typ, &b); }
                }
                if self.frag.0 != m.seq || m.off == 0 { self.frag = (m.seq, vec![]); }
                if m.off as usize != self.frag.1.len() { continue; } // only the fragment that continues the buffer counts
                self.frag.1.extend_from_slice(&m.body);
                if self.frag.1.len() >= m.total as usize { let b = std::mem::take(&mut self.frag.1); self.learn_body(m.typ, &b); }
            }
        }
    }

    pub fn learn_body(&mut self, typ: u8, body: &[u8]) {
        let key = format!("{:x}", fnv64(body));
        let b = Bytes::copy_from_slice(body);
        match typ {
            1 => { let bb = b.clone();
                if let Ok(Ok(ch)) = crate::catch(move || ClientHello::decode(&mut bb.clone())) {
                    let (ems, profiles, _) = scan_ext(&ch.extensions);
                    let ps = if profiles.is_empty() { "-".to_string() } else { profiles.iter().map(|p| p.to_string()).collect::<Vec<_>>().join(".") };
                    self.facts.insert(format!("ch:{key}"), format!("{}/{}/{}", hex(&ch.random.to_bytes()), ems as u8, ps));
                } }
            2 => { let bb = b.clone();
                if let Ok(Ok(sh)) = crate::catch(move || ServerHello::decode(&mut bb.clone())) {
                    let (ems, _, sel) = scan_ext(&sh.extensions);
                    let sr = sh.random.to_bytes();
                    if !self.srs_seen.contains(&sr) { self.srs_seen.push(sr.clone()); }
                    self.facts.insert(format!("sh:{key}"), format!("{}/{}/{}", hex(&sr), ems as u8, sel.map(|p| p.to_string()).unwrap_or("-".into())));
                } }
            3 => { if HelloVerifyRequest::decode(&mut b.clone()).is_ok() { self.facts.insert(format!("hv:{key}"), "1".into()); } }
            11 => match CertificateMessage::decode(&mut b.clone()) {
                Err(_) => { self.facts.insert(format!("ce:{key}"), "x".into()); }
                Ok(cm) => {
                    let ids: Vec<String> = cm.certificates.iter().map(|d| format!("{:x}", fnv64(d))).collect();
                    self.facts.insert(format!("ce:{key}"), if ids.is_empty() { "e".into() } else { ids.join(".") });
                    for (d, id) in cm.certificates.iter().zip(ids.iter()) {
                        self.facts.insert(format!("dg:{id}"), hex(fp_text(d).as_bytes()));
                        if cert_key(d).is_some() { self.facts.insert(format!("pk:{id}"), "1".into()); }
                        if !self.certs_seen.contains(d) { self.certs_seen.push(d.clone()); }
                    }
                    if let Some(leaf) = cm.certificates.first() { self.shown_cert_fps.push(fp_text(leaf)); }
                }
            },
            12 => match ServerKeyExchange::decode(&mut b.clone()) {
                Err(_) => { self.facts.insert(format!("sk:{key}"), "x".into()); }
                Ok(ske) => {
                    self.facts.insert(format!("sk:{key}"), hex(&ske.public_key));
                    self.last_ske_share = Some(ske.public_key.clone());
                    self.last_ske_body = Some(body.to_vec());
                    let cr = self.client_random();
                    for leaf in self.certs_seen.clone() { for sr in self.srs_seen.clone() {
                        if ske_sig_ok(&leaf, &cr, &sr, &ske) {
                            let mut k = format!("{:x}", fnv64(&leaf)).into_bytes();
                            k.extend_from_slice(&cr); k.extend_from_slice(&sr); k.extend_from_slice(body);
                            self.facts.insert(format!("sg:{:x}", fnv64(&k)), "1".into());
                            self.sig_ok_under.push(fp_text(&leaf));
                        }
                    } }
                }
            },
            16 => match ClientKeyExchange::decode(&mut b.clone()) {
                Err(_) => { self.facts.insert(format!("ck:{key}"), "x".into()); }
                Ok(cke) => { self.facts.insert(format!("ck:{key}"), hex(&cke.public_key)); self.last_ske_share = Some(cke.public_key); }
            },
            _ => {}
        }
    }

    fn aead_table(&self, dg: &[u8]) -> String {
        let Some(k) = self.keys.last() else { return "-".into() };
        let (kk, iv) = read_dir(k, self.ep.is_client);
        let mut ents = vec![];
        for r in parse_records(dg) {
            if r.epoch == 0 || r.body.len() < 24 { continue; }
            let (nonce, a, res) = open_rec(&kk, &iv, &r);
            let mut key = kk.clone();
            key.extend_from_slice(&nonce); key.extend_from_slice(&a); key.extend_from_slice(&r.body[8..]);
            ents.push(format!("{:x}={}", fnv64(&key), match res { None => "x".to_string(), Some(p) => hex(&p) }));
        }
        if ents.is_empty() { "-".into() } else { ents.join(";") }
    }

    /// deliver one datagram, run the endpoint to quiescence, record op + observation
    pub async fn inject(&mut self, dg: &[u8], src: SocketAddr) -> Vec<Vec<u8>> {
        self.learn(dg);
        let (had_keys, before) = (!self.keys.is_empty(), self.ep.letter());
        let recs = parse_records(dg);
        let only_clear_app_or_alert = !recs.is_empty() && recs.iter().all(|r| r.epoch == 0 && (r.ctype == 23 || r.ctype == 21));
        let clear_app = recs.iter().any(|r| r.epoch == 0 && r.ctype == 23);
        self.ep.deliver(dg, src).await;
        let sent = self.ep.pump().await;
        self.note_sent(&sent);
        let newk = rustrtc::verif_hooks::dtls::take_keys(self.ep.dtls.verif_instance_id());
        if !newk.is_empty() && self.ep.is_client {
            self.key_share_signed_by.clear();
            if let Some(b) = self.last_ske_body.clone() { if let Ok(ske) = ServerKeyExchange::decode(&mut Bytes::copy_from_slice(&b)) {
                let cr = self.client_random();
                for leaf in self.certs_seen.clone() { for sr in self.srs_seen.clone() {
                    if ske_sig_ok(&leaf, &cr, &sr, &ske) { self.key_share_signed_by.push(fp_text(&leaf)); } } }
            } }
        }
        for k in newk {
            if let Some(share) = &self.last_ske_share {
                let mut key = share.clone();
                key.extend_from_slice(&k.client_random); key.extend_from_slice(&k.server_random);
                self.facts.insert(format!("dk:{:x}", fnv64(&key)), keys_text(&k));
            }
            self.keys.push(k);
        }
        // protected handshake messages in this very datagram become readable only now
        self.learn(dg);
        let tbl = self.aead_table(dg);
        self.ops.push(format!("dg,{},{}", hex(dg), tbl));
        let o = self.obs(&sent);
        // oracle (C03, during the handshake too): clear-text application data is never handed up, and once keys
        // exist a datagram made only of clear-text ApplicationData / Alert records changes nothing
        let delivered_any = o.split(',').nth(2).map(|d| d != "-").unwrap_or(false);
        if clear_app && delivered_any && recs.iter().all(|r| r.epoch == 0) { self.clear_violations.push("rec:handshake-phase:0:23:delivered-unauthenticated".into()); }
        if had_keys && only_clear_app_or_alert && self.ep.letter() != before {
            self.clear_violations.push(format!("rec:handshake-phase:0:{}:state-{}-to-{}-unauthenticated", recs[0].ctype, before, self.ep.letter()));
        }
        // where the transport sends is part of its state: no datagram — least of all one from another address — may move it
        // (the harness presets the peer's address, so it must never change)
        let dest = *self.ep.conn.remote_addr.read();
        if dest != self.ep.sink_addr && !self.clear_violations.iter().any(|v| v.starts_with("rec:handshake-phase:destination")) {
            self.clear_violations.push(format!("rec:handshake-phase:destination-moved-to-the-source-of-a-datagram:state-{}:from-{}", self.ep.letter(), if src == self.ep.sink_addr { "genuine" } else { "third-party" }));
        }
        self.outs.push(o);
        sent
    }

    /// wait for the next retransmission tick of this endpoint's run loop, then run it
    pub async fn tick(&mut self) -> Vec<Vec<u8>> {
        self.ticks_done += 1;
        let at = self.ep.started + std::time::Duration::from_millis(1000 * self.ticks_done as u64 + 30);
        tokio::time::sleep_until(tokio::time::Instant::from_std(at)).await;
        let sent = self.ep.pump().await;
        self.note_sent(&sent);
        self.ops.push("tk".into());
        let o = self.obs(&sent);
        self.outs.push(o);
        sent
    }

    /// Real time has passed: run the loop now.  A retransmission it made is a `tk` op; its reaching Failed (the
    /// handshake deadline) a `dl` op.  Returns (retransmissions seen, failed now).
    pub async fn poll_timers(&mut self) -> (usize, bool) {
        let was = self.ep.letter();
        let sent = self.ep.pump().await;
        self.note_sent(&sent);
        let now = self.ep.letter();
        let failed_now = was == 'H' && now == 'F';
        let mut ticks = 0;
        if !sent.is_empty() {
            ticks = 1;
            self.ticks_done += 1;
            self.ops.push("tk".into());
            if failed_now {
                // interval tick and deadline became due in the same poll; nothing is sent after the deadline,
                // so the tick came first, in state Handshaking
                let d: Vec<String> = sent.iter().flat_map(|d| descr_hs(d)).collect();
                self.outs.push(format!("H,1,-,{}", d.join("+")));
            } else { let o = self.obs(&sent); self.outs.push(o); }
        }
        if failed_now {
            self.ops.push("dl".into());
            let o = self.obs(&[]);
            self.outs.push(o);
        }
        (ticks, failed_now)
    }

    pub async fn close(&mut self) -> Vec<Vec<u8>> {
        self.ep.dtls.close();
        let sent = self.ep.pump().await;
        self.note_sent(&sent);
        self.ops.push("cl".into());
        let o = self.obs(&sent);
        self.outs.push(o);
        sent
    }

    pub async fn send(&mut self, data: &[u8]) -> Vec<Vec<u8>> {
        let _ = self.ep.dtls.send(Bytes::copy_from_slice(data)).await;
        let sent = self.ep.pump().await;
        self.note_sent(&sent);
        self.ops.push(format!("sd,{}", hex(data)));
        let o = self.obs(&sent);
        self.outs.push(o);
        sent
    }

    /// elapsed since the run loop started, in units of the retransmit interval not yet accounted for
    pub fn unexpected_tick_possible(&self) -> bool {
        self.ep.started.elapsed() > std::time::Duration::from_millis(1000 * (self.ticks_done as u64 + 1) - 80)
    }

    fn own_body(&self, typ: u8, nth: usize) -> Vec<u8> {
        self.own.iter().filter(|(t, _)| *t == typ).nth(nth).map(|(_, b)| b.clone()).unwrap_or_default()
    }

    /// (model input line, implementation output line)
    pub fn lines(&self) -> (String, String) {
        let is_client = self.ep.is_client;
        let ch = self.own_body(1, 0);
        let sh = self.own_body(2, 0);
        let ske = self.own_body(12, 0);
        let cke = self.own_body(16, 0);
        let share = if is_client { cke.get(1..).unwrap_or(&[]).to_vec() }
            else { ske.get(3).map(|l| ske.get(4..4 + *l as usize).unwrap_or(&[]).to_vec()).unwrap_or_default() };
        let init = format!("init,{},{},{},{},{},{},{},{},{},{},{}", if is_client { "c" } else { "s" },
            self.expected.as_ref().map(|f| if f.is_empty() { "=".to_string() } else { hex(f.as_bytes()) }).unwrap_or("-".into()),
            hex(&share), hex(ch.get(2..34).unwrap_or(&[])), hex(&ch), hex(&self.own_body(1, 1)),
            hex(sh.get(2..34).unwrap_or(&[])), hex(&sh), hex(&self.own_body(11, 0)), hex(&ske), hex(&cke));
        let facts = if self.facts.is_empty() { "-".to_string() } else { self.facts.iter().map(|(k, v)| format!("{k}={v}")).collect::<Vec<_>>().join(";") };
        let fin = match self.ep.keys() {
            Some(k) => format!("fin:C/{}/{}", self.ep.srtp_profile().map(|p| p.to_string()).unwrap_or("-".into()), keys_id(&k)),
            None => format!("fin:{}/-/-", self.ep.letter()),
        };
        (format!("{init} facts,{facts} {}", self.ops.join(" ")), format!("{} {fin}", self.outs.join(" ")))
    }
}
