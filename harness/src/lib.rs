//! Verification harness library: PRNG, hex, case/ops writer, stats, panic capture.
pub mod props;

use std::collections::{BTreeMap, BTreeSet};
use std::fmt::Write as _;
use std::io::Write;

/// SplitMix64 — every random choice of a run derives from one state seeded by VERIF_SEED.
#[derive(Clone)]
pub struct Rng(pub u64);
impl Rng {
    pub fn new(seed: u64) -> Self { Rng(seed ^ 0x9E37_79B9_7F4A_7C15) }
    pub fn next(&mut self) -> u64 {
        self.0 = self.0.wrapping_add(0x9E37_79B9_7F4A_7C15);
        let mut z = self.0;
        z = (z ^ (z >> 30)).wrapping_mul(0xBF58_476D_1CE4_E5B9);
        z = (z ^ (z >> 27)).wrapping_mul(0x94D0_49BB_1331_11EB);
        z ^ (z >> 31)
    }
    pub fn below(&mut self, n: u64) -> u64 { if n == 0 { 0 } else { self.next() % n } }
    pub fn range(&mut self, lo: u64, hi_incl: u64) -> u64 { lo + self.below(hi_incl - lo + 1) }
    pub fn chance(&mut self, num: u64, den: u64) -> bool { self.below(den) < num }
    pub fn pick<'a, T>(&mut self, xs: &'a [T]) -> &'a T { &xs[self.below(xs.len() as u64) as usize] }
    pub fn bytes(&mut self, n: usize) -> Vec<u8> { (0..n).map(|_| self.next() as u8).collect() }
    pub fn fork(&mut self) -> Rng { Rng(self.next()) }
}

/// A per-process scratch directory for side runs (replays, throw-away `Run`s): `$VH_SCRATCH/<name>` when the
/// check sets VH_SCRATCH (it removes it afterwards), else `<system temp dir>/vh-<pid>/<name>`. Never a fixed path,
/// so concurrent runs do not share files and nothing outside the check's work directory has to exist.
pub fn scratch(name: &str) -> String {
    let base = std::env::var("VH_SCRATCH").unwrap_or_else(|_| format!("{}/vh-{}", std::env::temp_dir().display(), std::process::id()));
    format!("{base}/{name}")
}

pub fn hex(b: &[u8]) -> String {
    if b.is_empty() { return "-".into(); }
    let mut s = String::with_capacity(b.len() * 2);
    for x in b { let _ = write!(s, "{:02x}", x); }
    s
}
pub fn unhex(s: &str) -> Vec<u8> {
    if s == "-" { return vec![]; }
    (0..s.len() / 2).map(|i| u8::from_str_radix(&s[2 * i..2 * i + 2], 16).unwrap()).collect()
}

/// An oracle failure: the property itself evaluated directly on the implementation failed.
#[derive(Clone, Debug)]
pub struct OracleFail {
    pub signature: String,
    pub case: String,
    pub detail: String,
}

/// Collects the op lines, implementation output lines, distribution counters and oracle failures.
pub struct Run {
    pub prop: &'static str,
    pub ops: std::io::BufWriter<std::fs::File>,
    pub imp: std::io::BufWriter<std::fs::File>,
    pub dir: String,
    pub n_cases: u64,
    pub distinct: BTreeSet<u64>,
    pub nontrivial: u64,
    pub dist: BTreeMap<String, u64>,
    pub samples: Vec<String>,
    pub sample_streams: BTreeSet<String>,
    pub fails: Vec<OracleFail>,
    pub notes: BTreeMap<String, serde_json::Value>,
    pub exhaustive: bool,
}

fn fnv(s: &str) -> u64 {
    let mut h = 0xcbf29ce484222325u64;
    for b in s.bytes() { h ^= b as u64; h = h.wrapping_mul(0x100000001b3); }
    h
}

impl Run {
    pub fn new(prop: &'static str, dir: &str) -> Self {
        std::fs::create_dir_all(dir).unwrap();
        let ops = std::io::BufWriter::new(std::fs::File::create(format!("{dir}/ops.txt")).unwrap());
        let imp = std::io::BufWriter::new(std::fs::File::create(format!("{dir}/impl.txt")).unwrap());
        Run { prop, ops, imp, dir: dir.into(), n_cases: 0, distinct: BTreeSet::new(), nontrivial: 0,
              dist: BTreeMap::new(), samples: vec![], sample_streams: BTreeSet::new(), fails: vec![], notes: BTreeMap::new(), exhaustive: false }
    }
    /// One correspondence case: `stream` names the model function, `input` the canonical input text,
    /// `out` the implementation's canonical output. `nontrivial` by the property's stated rule.
    pub fn case(&mut self, stream: &str, input: &str, out: &str, nontrivial: bool) {
        let id = self.n_cases;
        self.n_cases += 1;
        writeln!(self.ops, "{} {} {} {}", self.prop, stream, id, input).unwrap();
        writeln!(self.imp, "{} {} {} {}", self.prop, stream, id, out).unwrap();
        if nontrivial && self.distinct.insert(fnv(stream) ^ fnv(input)) { self.nontrivial += 1; }
        // samples: the first non-trivial case of each stream (up to 8 streams), then the old rule as a fallback
        let new_stream = nontrivial && self.samples.len() < 8 && !self.sample_streams.contains(stream);
        if new_stream { self.sample_streams.insert(stream.to_string()); }
        if new_stream || (self.samples.len() < 3 && (id < 2 || (nontrivial && id % 97 == 3))) {
            let mut s = format!("{stream} {input} => {out}");
            if s.len() > 400 { s.truncate(400); s.push('…'); }
            self.samples.push(s);
        }
    }
    pub fn count(&mut self, key: &str) { *self.dist.entry(key.to_string()).or_insert(0) += 1; }
    pub fn count_n(&mut self, key: &str, n: u64) { *self.dist.entry(key.to_string()).or_insert(0) += n; }
    pub fn fail(&mut self, signature: &str, case: &str, detail: &str) {
        if self.fails.iter().filter(|f| f.signature == signature).count() < 5 {
            self.fails.push(OracleFail { signature: signature.into(), case: case.into(), detail: detail.into() });
        }
        self.count(&format!("oracle_fail:{signature}"));
    }
    pub fn finish(mut self) {
        self.ops.flush().unwrap();
        self.imp.flush().unwrap();
        let fails: Vec<_> = self.fails.iter().map(|f| serde_json::json!({
            "signature": f.signature, "case": f.case, "detail": f.detail})).collect();
        let j = serde_json::json!({
            "property": self.prop, "cases": self.n_cases, "distinct_nontrivial": self.nontrivial,
            "distribution": self.dist, "samples": self.samples, "oracle_failures": fails,
            "notes": self.notes, "exhaustive": self.exhaustive });
        std::fs::write(format!("{}/stats.json", self.dir), serde_json::to_string_pretty(&j).unwrap()).unwrap();
    }
}

/// Run `f` catching panics; returns Err("file:line: msg") on panic.
pub fn catch<T>(f: impl FnOnce() -> T + std::panic::UnwindSafe) -> Result<T, String> {
    use std::sync::Mutex;
    static LAST: Mutex<Option<String>> = Mutex::new(None);
    static INIT: std::sync::Once = std::sync::Once::new();
    INIT.call_once(|| {
        std::panic::set_hook(Box::new(|info| {
            let loc = info.location().map(|l| format!("{}:{}", l.file(), l.line())).unwrap_or_default();
            let msg = if let Some(s) = info.payload().downcast_ref::<&str>() { s.to_string() }
                      else if let Some(s) = info.payload().downcast_ref::<String>() { s.clone() } else { "?".into() };
            *LAST.lock().unwrap() = Some(format!("{loc}: {msg}"));
        }));
    });
    match std::panic::catch_unwind(f) {
        Ok(v) => Ok(v),
        Err(_) => Err(LAST.lock().unwrap().take().unwrap_or_else(|| "panic".into())),
    }
}

pub struct Args {
    pub tier_thorough: bool,
    pub seed: u64,
    pub out: String,
    pub replay: Option<String>,
}
