use vh::{Args, props};

fn main() {
    let a: Vec<String> = std::env::args().collect();
    if a.len() < 2 { eprintln!("usage: vh <prop> [--tier quick|thorough] [--seed N] [--out DIR] [--replay CASE]"); std::process::exit(2); }
    let prop = a[1].to_lowercase();
    let mut args = Args { tier_thorough: false, seed: 1, out: format!("work/{prop}"), replay: None };
    let mut i = 2;
    while i < a.len() {
        match a[i].as_str() {
            "--tier" => { args.tier_thorough = a[i + 1] == "thorough"; i += 2; }
            "--seed" => { args.seed = a[i + 1].parse().unwrap_or(1); i += 2; }
            "--out" => { args.out = a[i + 1].clone(); i += 2; }
            "--replay" => { args.replay = Some(a[i + 1].clone()); i += 2; }
            _ => { i += 1; }
        }
    }
    if !props::dispatch(prop.as_str(), &args) { eprintln!("unknown property {prop}"); std::process::exit(2); }
}
