import json, os, shutil, sys
S = {
 "C01-e": ("c01e","C01","handle_init: the early return that ignores a duplicate INIT on an established association is moved below the block that records the peer's parameters, so a late duplicate INIT resets cumulative_tsn_ack to the peer's initial TSN - 1 before being ignored; every later DATA chunk then sits in received_queue forever (delivery stops on a loss-free link).",
   "an established association that has already received DATA, a late copy of the original INIT (same initiate tag), and more data sent afterwards",
   "./check C01 --tier quick: VIOLATION with a concrete replay (C01-oracle-*: `hist:late(INIT):stall`, link case stale-setup-A.INIT.1.late400: 5 of 6 messages delivered after 12 s on a quiet loss-free link) plus 7 disagreeing cases of stream rx — first reported only as no-failing-input-found (the quick single-fault plans released the late INIT inside the initial burst, where retransmission heals it); the `stale-setup-*` link cases (setup chunk held until the link is quiet, last message sent after it; 8 cases) were added because of this seed"),
 "C04-e": ("c04e","C04","SrtpPacket::marshal_header_into only grows the reusable per-context auth_scratch buffer instead of resizing it to the header length; unprotect authenticates the whole buffer, so bytes of an earlier longer header end up in the authenticated data and a genuine packet is rejected.",
   "one SSRC's receive context sees a packet with a longer RTP header (extension and/or CSRCs) followed by one with a shorter header",
   "./check C04 --tier quick: VIOLATION with concrete replays (C04-oracle-*: genuine packet rejected in a header-shape-changing script)"),
 "C06-e": ("c06e","C06","verify_message_integrity rewritten as a zip-based 'constant-time compare' that drops the len == 20 requirement: a MESSAGE-INTEGRITY attribute with an empty value verifies.",
   "a Binding request carrying the victim's ufrag and a MESSAGE-INTEGRITY attribute of length 0 (absent, wrong, short non-empty and over-long values are still rejected)",
   "./check C06 --tier quick: VIOLATION with concrete replays (C06-oracle-*: unauthenticated request influenced the agent)"),
 "C09-e": ("c09e","C09","set_local_description: the guard before the early application of the offer's payload map / extension map / MID to transceivers is weakened from `== Stable` to `!= HaveLocalOffer`; a rejected set_local_description(offer) in HaveRemoteOffer or Closed still returns InvalidState but has already rewritten transceiver parameters.",
   "a negotiated connection, a remote re-offer (HaveRemoteOffer), then a rejected local offer carrying changed rtpmap/extmap lines, with transceiver parameters compared afterwards",
   "./check C09 --tier quick: VIOLATION with concrete replays (C09-oracle-*: a rejected call changed transceiver parameters)"),
 "C11-e": ("c11e","C11","the server's handling of a repeated client Finished calls handle_retransmit() (which returns early unless Handshaking) instead of resending last_flight_records; a Connected server never resends its final flight.",
   "the first copy of the server's final flight (CCS + Finished) is lost; every other loss pattern behaves as before",
   "./check C11 --tier quick: VIOLATION with concrete replays (C11-oracle-*: client never reaches Connected under a final-flight loss plan)"),
 "C13-e": ("c13e","C13","transmit_chunks_with_tag resets the running length to 0 instead of SCTP_COMMON_HEADER_SIZE after flushing a batch; the second and later packets of one transmit call can reach 1212 bytes.",
   "one transmit() call emitting at least two packets where a non-first batch of bundled chunks sums to 1189..1200 bytes (e.g. four 300-byte DATA chunks)",
   "./check C13 --tier quick: VIOLATION with a concrete replay (C13-oracle-*; 273 of 8225 cases of stream batch disagree with the bundling model, 3 oracle failure classes incl. packet larger than the path limit)"),
 "C15-e": ("c15e","C15","build_sdes_body pads each SDES chunk with one resize to the next 4-byte boundary instead of pushing the END octet first; when a chunk's items already end on a 32-bit boundary the mandatory END octet is dropped.",
   "a chunk whose items total (2 + text_len) = 0 mod 4 (CNAME of length 2, 6, ..., 254) plus a second chunk or a wire-level check; single-chunk SDES still round-trips through the crate's own parser",
   "./check C15 --tier quick: VIOLATION with concrete replays (C15-oracle-*: marshal output differs from the RFC 3550 model / reference parser)"),
 "C17-e": ("c17e","C17","send_data_raw: the association-Closed check is moved out of the send-buffer flow-control wait loop and done once on entry; a send_data() parked for buffer credit is woken by close(), finds the buffer still above sctp_max_buffered_amount, parks again and never returns.",
   "a sender actually parked on buffer credit at the moment of close (peer stopped acknowledging, queued bytes above sctp_max_buffered_amount)",
   "./check C17 --tier quick: VIOLATION with concrete replays (C17-oracle-*: pending send_data still pending after close)"),
}
S.update({
 "C02-f": ("c02f","C02","handle_certificate: the supported-key check loops over the whole certificate chain and assigns ctx.peer_certificate inside the loop, so the client verifies the ServerKeyExchange signature against the LAST certificate of the chain while the SDP fingerprint is compared against the first.",
   "a Certificate message with two entries [victim's public certificate, attacker certificate] and a ServerKeyExchange signed with the attacker's key; single-certificate chains behave identically",
   "./check C02 --tier quick: VIOLATION with 2 concrete replays (`role:client:connected-with-a-key-share-the-pinned-certificate-did-not-sign`, `role:client:connected-without-proof-of-possession`, script `s>c:0:impostortail`) + 3 disagreeing cases of stream hs — first reported only as no-failing-input-found (2 disagreeing `extracert` cases: the genuine server with an extra certificate no longer connects); the attack `impostortail` ([genuine certificate, attacker certificate], ServerKeyExchange signed by the attacker) was added to the script list because of this seed"),
 "C03-f": ("c03f","C03","handle_incoming_packet: the filter that drops clear-text (epoch 0) Alert records tests 'state is Connected' instead of 'session keys are negotiated'; a plaintext close_notify between ClientKeyExchange and the client's Finished flips the server to Closed.",
   "a plaintext alert reaching the server after it processed ClientKeyExchange but before the client's Finished; once Connected the filter still works",
   "DET"),
 "C05-f": ("c05f","C05","RtpHeader::parse checks `version < RTP_VERSION` instead of `!=`: version-3 headers parse, SrtpContext::unprotect authenticates a header rebuilt with version 2, so the version bits are no longer covered by the tag / AAD — flipping bit 1 of byte 0 of a genuine SRTP packet yields an accepted forgery.",
   "exactly that one header bit (0x80 → 0xC0) of a genuine protected packet; every other bit flip or truncation is still rejected",
   "DET"),
 "C08-f": ("c08f","C08","populate_media_capabilities: the abs-send-time extmap lookup passes None instead of answer_index to get_remote_extmap_id, so for answers the remote section is looked up by MID instead of by index; the answer can echo an extension id the offer bound to a different extension in that section.",
   "an offer without MIDs (or with MIDs different from the local transceivers') and two or more sections binding abs-send-time to different ids",
   "DET"),
 "C12-f": ("c12f","C12","handle_dcep: the reliability type of a received DCEP OPEN is chosen with a match on channel_type that lists 0x01|0x81 and 0x02 but omits 0x82 (unordered timed): such a channel appears at the peer as unordered reliable with max_packet_life_time None.",
   "an in-band (non-negotiated) channel with ordered=false and max_packet_life_time=Some(_); the other five channel types and negotiated channels are unaffected",
   "DET"),
 "C14-f": ("c14f","C14","try_bridge_rewrite_rtp: the 'no SRTP session → drop if SRTP is mandatory' guard tests self.srtp_required (the source leg) instead of target.srtp_required (the destination leg); the rewrite bridge emits cleartext RTP on an SRTP-mandatory leg before keys exist.",
   "a plain-RTP source bridged to an SRTP-mandatory target, and an inbound packet on the source before the target's keys are installed; same-mode bridges and traffic after keying behave as before",
   "DET"),
 "C16-f": ("c16f","C16","the IPv6 XOR-address encoder and decoder share a new helper xor_key_v6(tx_id) whose fill loop is `for i in 4..15`: the last byte of an IPv6 address is never XORed with transaction_id[11]; the crate's own round trip still agrees.",
   "an IPv6 XOR-MAPPED / XOR-PEER / XOR-RELAYED address, a transaction id whose last byte is nonzero, and comparison with an independent RFC 5389 encoder / decoder",
   "DET"),
 "C19-f": ("c19f","C19","RewriteBridge::rewrite_packet: `state.last_source_timestamp = Some(src_timestamp)` moved out of the `delta < 0x8000_0000` block, so a late source packet moves the per-stream timestamp reference backwards; the next in-order packet looks like a forward discontinuity and the output timestamp offset is rebased.",
   "a source stream receives a stale or duplicate packet more than 900 000 ticks older than its newest one, then continues in order (ordinary reordering and plain forward traffic are unaffected)",
   "DET"),
})
S.update({
 "C07-g": ("c07g","C07","parse_rtcp_packets: the RTCP padding bound is checked against the whole sub-packet length (`pad > packet_len`) instead of the body length; an over-long pad count makes `&raw[offset + 4..body_end]` panic (slice index starts at 4 but ends at 3).",
   "an RTCP sub-packet with the padding bit set whose last byte is a pad count between body_len + 1 and packet_len (e.g. a0 c9 00 01 00 00 00 08); legal padded RTCP and larger pad counts behave as before",
   "DET"),
 "C10-g": ("c10g","C10","IceGatherer::bind_socket: port_count = ((end - start) / 2).max(1) instead of + 1 — the top even port of a configured RTP port range is never probed; with two endpoints on one host sharing a range of exactly two even ports the second gathers no host candidate and never connects.",
   "rtp_start_port / rtp_end_port configured and the range nearly exhausted (two endpoints sharing [P, P+2]); default configurations and roomy ranges are unaffected",
   "./check C10 --tier quick: VIOLATION with 2 concrete replays (`cfgrange:webrtc-data:two-endpoints-sharing-a-two-port-range-do-not-connect`, `cfgrange:rtp-audio:…`) — MISSED at first (exit 0: no case of the lattice configured a port range); scenario (2f) `tight port range` (both endpoints share a two-port range, 3 attempts on different ranges) was added because of this seed"),
 "C18-g": ("c18g","C18","IceConn::reset_latch_locked reuses an existing probation window (get_or_insert_with) and only refreshes max_packets, so the candidate table and total_packets survive a mid-probation signaling reset; stale pre-reset candidates still count and the destination can commit to an address that sent nothing since the reset.",
   "probation of about 4 or more, a reset (reset_latch or signaling retarget) while probation is still undecided, then a new source",
   "DET"),
 "C20-g": ("c20g","C20","SampleStreamTrack::recv: the check after the consumer wakes up is `source_closed` instead of `source_closed && queue.is_empty()`; samples still queued at close are lost, the consumer gets EndOfStream early and `ended` is latched.",
   "the consumer already parked in recv() on an empty queue; the producer pushes its last sample and drops the last source handle before the woken consumer runs again",
   "DET"),
})
DET = {}
import glob
for name in sys.argv[1:]:
    if name in S and S[name][4] == "DET":
        w = S[name][0]; log = open(f"/tmp/seed/logs/test_{w}.log").read()
        import re
        tier = re.search(r"^C\d\d tier=.*$", log, re.M); viol = re.findall(r"^VIOLATION.*$", log, re.M)
        kinds = sorted(set(("no-failing-input-found" if "no-failing-input-found" in v else "concrete replay") for v in viol))
        S[name] = S[name][:4] + (f"./check {S[name][1]} --tier quick: {len(viol)} VIOLATION line(s) ({', '.join(kinds)}); {tier.group(0) if tier else ''}",)
note = {"C05-f": "during the coordinator's confirmation run the unrelated ICE lib test use_candidate_no_renomination_after_nomination failed under heavy machine load (as for C01-e); the author's run had 514 passed, and the change does not touch ICE", "C01-e": "during the coordinator's confirmation run one unrelated ICE lib test (transports::ice::tests::use_candidate_no_renomination_after_nomination) failed under heavy machine load (three cargo test runs and four checks in parallel); the author's run had 514 passed, and the change does not touch ICE"}
for name in sys.argv[1:]:
    w, prop, breaks, needs, det = S[name]
    src = f"/tmp/seed/{w}/_out"; d = f"/verif/seeded/{name}"; os.makedirs(d, exist_ok=True)
    shutil.copy(src + "/patch.diff", d); shutil.copy(src + "/demo.rs", d); shutil.copy(src + "/meta.txt", d + "/author_notes.txt")
    json.dump({"property": prop, "breaks": breaks, "needs_to_manifest": needs, "demo_path": f"SEED/demo.rs → tests/seed_demo_{w}.rs (cargo test --offline --test seed_demo_{w})",
      "author": "independent sub-agent given only the property text and a scratch worktree of /repo",
      "confirmed_by_coordinator": {"what_i_ran": [f"tools/confirm_seed.sh /tmp/seed/{w} <seed> seed_demo_{w} — pristine: demo passes; patched: compiles, demo fails, `cargo test --offline --lib` passes (514 passed)", f"tools/seed_test.sh <seed>/patch.diff {prop}"],
        "demo_fails_with_patch": True, "demo_passes_without_patch": True, "existing_tests_pass": True, "note": note.get(name, "")},
      "detected_by": det}, open(d + "/meta.json", "w"), indent=1, ensure_ascii=False)
    print("kept", d)
