// audit probe (private clone only): RTP-mode ANSWERER, latch open, one unauthenticated STUN Binding request
// carrying USE-CANDIDATE (+PRIORITY) from an arbitrary address/port.
use rustrtc::transports::ice::stun::{StunAttribute, StunClass, StunMessage, StunMethod};
use rustrtc::{PeerConnection, RtcConfiguration, SdpType, SessionDescription, TransportMode};
use std::net::{IpAddr, Ipv4Addr, SocketAddr};
use std::sync::atomic::Ordering;
use std::time::Duration;
use tokio::net::UdpSocket;

async fn run(with_prio: bool, offerer: bool) {
    let s = UdpSocket::bind(SocketAddr::new(IpAddr::V4(Ipv4Addr::new(127, 0, 0, 9)), 0)).await.unwrap();
    let z = UdpSocket::bind(SocketAddr::new(IpAddr::V4(Ipv4Addr::new(127, 0, 0, 7)), 0)).await.unwrap();
    let mut cfg = RtcConfiguration::default();
    cfg.transport_mode = TransportMode::Rtp;
    cfg.enable_latching = true;
    cfg.bind_ip = Some("127.0.0.1".into());
    cfg.disable_ipv6 = true;
    cfg.probation_max_packets = Some(6);
    let pc = PeerConnection::new(cfg);
    let sa = s.local_addr().unwrap();
    let sdp = format!("v=0\r\no=- 1 1 IN IP4 {ip}\r\ns=-\r\nt=0 0\r\nc=IN IP4 {ip}\r\nm=audio {port} RTP/AVP 0\r\na=rtpmap:0 PCMU/8000\r\na=rtcp-mux\r\na=sendrecv\r\na=ssrc:287454020 cname:x\r\n", ip = sa.ip(), port = sa.port());
    if offerer {
        pc.add_transceiver(rustrtc::MediaKind::Audio, rustrtc::TransceiverDirection::SendRecv);
        let o = pc.create_offer().await.unwrap();
        pc.set_local_description(o).unwrap();
        pc.set_remote_description(SessionDescription::parse(SdpType::Answer, &sdp).unwrap()).await.unwrap();
    } else {
        pc.set_remote_description(SessionDescription::parse(SdpType::Offer, &sdp).unwrap()).await.unwrap();
        let a = pc.create_answer().await.unwrap();
        pc.set_local_description(a).unwrap();
    }
    let mut tr = None;
    for _ in 0..500 { if let Some(t) = pc.verif_lc_rtp_transport() { tr = Some(t); break; } tokio::time::sleep(Duration::from_millis(2)).await; }
    let conn = tr.expect("no rtp transport").ice_conn();
    tokio::time::sleep(Duration::from_millis(30)).await;
    let local = pc.ice_transport().local_candidates().into_iter().find(|c| c.component == 1).unwrap().address;
    println!("role={} prio={} before: remote={} latched={} (signaled {}, stranger {})", if offerer { "offerer" } else { "answerer" }, with_prio,
        *conn.remote_addr.read(), conn.rtp_latched.load(Ordering::Relaxed), sa, z.local_addr().unwrap());
    let mut attrs = vec![StunAttribute::UseCandidate];
    if with_prio { attrs.push(StunAttribute::Priority(u32::MAX)); }
    let m = StunMessage { class: StunClass::Request, method: StunMethod::Binding, transaction_id: [7u8; 12], attributes: attrs };
    let bytes = m.encode(None, true).unwrap();
    z.send_to(&bytes, local).await.unwrap();
    tokio::time::sleep(Duration::from_millis(150)).await;
    println!("  after STUN+USE-CANDIDATE from the stranger: remote={} latched={}", *conn.remote_addr.read(), conn.rtp_latched.load(Ordering::Relaxed));
    pc.close();
}

/// C09 probe: non-BUNDLE (LegacySip) RTP offer with two m-lines and an RTP port range holding ONE even port:
/// the primary socket binds, the second m-line's socket cannot.
async fn offer_port_exhaustion(mode: TransportMode) {
    let mut port = 0u16;
    for _ in 0..50 { let t = UdpSocket::bind("127.0.0.1:0").await.unwrap(); let p = t.local_addr().unwrap().port(); if p % 2 == 0 && p > 1024 { port = p; break; } }
    let mut cfg = RtcConfiguration::default();
    cfg.transport_mode = mode.clone();
    cfg.bind_ip = Some("127.0.0.1".into());
    cfg.disable_ipv6 = true;
    cfg.sdp_compatibility = rustrtc::config::SdpCompatibilityMode::LegacySip;
    cfg.rtcp_mux_policy = rustrtc::config::RtcpMuxPolicy::Require;
    cfg.rtp_start_port = Some(port);
    cfg.rtp_end_port = Some(port);
    let pc = PeerConnection::new(cfg);
    pc.add_transceiver(rustrtc::MediaKind::Audio, rustrtc::TransceiverDirection::SendRecv);
    pc.add_transceiver(rustrtc::MediaKind::Video, rustrtc::TransceiverDirection::SendRecv);
    let before = pc.verif_snapshot();
    let r = pc.create_offer().await;
    let after = pc.verif_snapshot();
    println!("create_offer ({:?}, LegacySip, port range {port}..={port}): {:?}", mode, r.as_ref().map(|_| "Ok").map_err(|e| e.to_string()));
    println!("  mids before {:?} next_mid {} | after {:?} next_mid {} | state {:?}",
        before.transceivers.iter().map(|t| t.mid.clone()).collect::<Vec<_>>(), before.next_mid,
        after.transceivers.iter().map(|t| t.mid.clone()).collect::<Vec<_>>(), after.next_mid, after.signaling_state);
    pc.close();
}

/// witness for mutation M3: negotiated answerer, then a re-INVITE offer that changes a=ssrc and lists payload type 200
async fn reinvite_pt200() {
    let mut cfg = RtcConfiguration::default();
    cfg.transport_mode = TransportMode::WebRtc;
    cfg.bind_ip = Some("127.0.0.1".into());
    cfg.disable_ipv6 = true;
    let pc = PeerConnection::new(cfg);
    let fp = "AA:BB:CC:DD:EE:FF:00:11:22:33:44:55:66:77:88:99:AA:BB:CC:DD:EE:FF:00:11:22:33:44:55:66:77:88:99";
    let sdp = |ver: u32, ssrc: u32, extra: &str| format!("v=0\r\no=- 1 {ver} IN IP4 127.0.0.1\r\ns=-\r\nt=0 0\r\nm=audio 9 UDP/TLS/RTP/SAVPF 0 8\r\nc=IN IP4 0.0.0.0\r\na=ice-ufrag:rmt1\r\na=ice-pwd:remotepasswordremotepassw\r\na=fingerprint:sha-256 {fp}\r\na=setup:actpass\r\na=mid:0\r\na=sendrecv\r\na=rtcp-mux\r\na=rtpmap:0 PCMU/8000\r\na=rtpmap:8 PCMA/8000\r\n{extra}a=ssrc:{ssrc} cname:r\r\n");
    pc.set_remote_description(SessionDescription::parse(SdpType::Offer, &sdp(1, 1111, "")).unwrap()).await.unwrap();
    let a = pc.create_answer().await.unwrap();
    pc.set_local_description(a).unwrap();
    let b = (pc.verif_snapshot(), pc.verif_negotiated());
    let r = pc.set_remote_description(SessionDescription::parse(SdpType::Offer, &sdp(2, 2222, "a=rtpmap:200 X/8000\r\n")).unwrap()).await;
    let c = (pc.verif_snapshot(), pc.verif_negotiated());
    println!("re-INVITE with a=rtpmap:200 and a new a=ssrc: {:?}", r.as_ref().map(|_| "Ok").map_err(|e| e.to_string()));
    println!("  receiver ssrc {:?} -> {:?}; state {:?} -> {:?}; remote description changed: {}", b.1[0].receiver_ssrc, c.1[0].receiver_ssrc, b.0.signaling_state, c.0.signaling_state, b.0.remote_description != c.0.remote_description);
    pc.close();
}

/// witness for mutation M1: two receive() calls on one IceConn (the RTP-socket and the RTCP-socket reader tasks both end in
/// IceConn::receive). Thread 1 (packet from B, no marker) is parked at `recv:before-lock`, i.e. after the unlocked
/// `!rtp_latched` test; thread 0 (marker packet from A) commits; thread 1 continues.
fn two_receives() {
    use rustrtc::transports::ice::conn::verif_sched;
    use rustrtc::transports::PacketReceiver;
    use std::sync::{Arc, Condvar, Mutex};
    let (_tx, rx) = tokio::sync::watch::channel::<Option<rustrtc::transports::ice::IceSocketWrapper>>(None);
    let sa = |h: u8, p: u16| SocketAddr::new(IpAddr::V4(Ipv4Addr::new(10, 0, 0, h)), p);
    let conn = rustrtc::verif_hooks::ice_conn::new_with_rtcp(rx.clone(), rx, sa(9, 5009), Some(6));
    conn.set_expected_ssrc(7);
    conn.enable_latch_on_rtp();
    let rtp = |marker: bool, seq: u16| { let mut b = vec![0x80u8, if marker { 0xE0 } else { 0x60 }]; b.extend_from_slice(&seq.to_be_bytes()); b.extend_from_slice(&0u32.to_be_bytes()); b.extend_from_slice(&7u32.to_be_bytes()); b };
    let gate = Arc::new((Mutex::new((false, false)), Condvar::new())); // (thread 1 parked, thread 1 released)
    thread_local! { static T1: std::cell::Cell<bool> = const { std::cell::Cell::new(false) }; }
    let g = gate.clone();
    verif_sched::set(Some(Arc::new(move |name: &'static str| {
        if T1.with(|x| x.get()) && name == "recv:before-lock" {
            let mut st = g.0.lock().unwrap(); st.0 = true; g.1.notify_all();
            while !st.1 { st = g.1.wait(st).unwrap(); }
        }
    })));
    let c1 = conn.clone(); let p_b = rtp(false, 500);
    let h = std::thread::spawn(move || { T1.with(|x| x.set(true));
        let rt = tokio::runtime::Builder::new_current_thread().build().unwrap(); let mut mb = vec![];
        rt.block_on(c1.receive(bytes::Bytes::from(p_b), SocketAddr::new(IpAddr::V4(Ipv4Addr::new(10, 0, 0, 2)), 5002), &mut mb)); });
    { let mut st = gate.0.lock().unwrap(); while !st.0 { st = gate.1.wait(st).unwrap(); } }
    let rt = tokio::runtime::Builder::new_current_thread().build().unwrap(); let mut mb = vec![];
    rt.block_on(conn.receive(bytes::Bytes::from(rtp(true, 10)), sa(1, 5001), &mut mb));
    println!("two receives: after the marker packet from A: remote={} latched={}", *conn.remote_addr.read(), conn.rtp_latched.load(Ordering::Relaxed));
    { let mut st = gate.0.lock().unwrap(); st.1 = true; gate.1.notify_all(); }
    h.join().unwrap();
    verif_sched::set(None);
    println!("  after the parked packet from B finished:    remote={} latched={}", *conn.remote_addr.read(), conn.rtp_latched.load(Ordering::Relaxed));
}

#[tokio::main]
async fn main() {
    if std::env::args().any(|a| a == "two") { tokio::task::block_in_place(two_receives); return; }
    reinvite_pt200().await;
    offer_port_exhaustion(TransportMode::Rtp).await;
    offer_port_exhaustion(TransportMode::Srtp).await;
    run(false, false).await;
    run(true, false).await;
    run(true, true).await;
}
