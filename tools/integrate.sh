#!/bin/bash
# usage: tools/integrate.sh <agent-name>   — pull an agent's framework clone into /verif and cherry-pick its repo commits
N=$1; W=/work/agents/$N
cd /verif || exit 2
git add -A evidence lean/RtcModel/Generated 2>/dev/null; git commit -qm "evidence refresh" 2>/dev/null; if [ -n "$(git status --porcelain)" ]; then echo "/verif not clean"; git status --short | head; exit 2; fi
git pull -q --no-edit --no-rebase -X ours $W/verif main 2>&1 | tail -3
# resolve leftover conflicts in generated/evidence files in our favour
for f in $(git diff --name-only --diff-filter=U); do
  case $f in evidence/*|lean/RtcModel/Generated/*|harness/work/*) git checkout --ours -- $f 2>/dev/null || git rm -q --cached $f; git add $f 2>/dev/null;; *) echo "CONFLICT needs attention: $f";; esac
done
git diff --name-only --diff-filter=U | grep -q . || git commit -q --no-edit 2>/dev/null
echo "--- verif merged; new files vs previous HEAD:"; git diff --stat HEAD@{1} HEAD 2>/dev/null | tail -3
cd /repo || exit 2
if [ -n "$(git status --porcelain)" ]; then echo "/repo not clean"; exit 2; fi
for c in $(git rev-list --reverse main..agent-$N); do
  subj=$(git log -1 --format=%s $c)
  if grep -q "^$(git rev-parse --short=7 $c)" /verif/tools/skip_commits.txt; then echo "skip (listed): $subj"; continue; fi
  if [ "$(git rev-list --parents -n1 $c | wc -w)" -gt 2 ]; then echo "skip (merge commit): $subj"; continue; fi
  if git log main --format=%s | grep -qxF "$subj"; then echo "skip (already on main): $subj"; continue; fi
  if git cherry-pick -x $c >/dev/null 2>&1; then echo "picked: $subj"; else
     if git diff --cached --quiet && git diff --quiet; then git cherry-pick --skip; echo "skip (empty): $subj"; else echo "CHERRY-PICK CONFLICT: $subj"; git status --short | head; exit 1; fi
  fi
done
