#!/bin/bash
# usage: tools/confirm_seed.sh <worktree> <seed-dir> <demo-test-name> [lib-test-filter…]
# Confirms a seeded change in a scratch worktree: (1) pristine: demo passes; (2) patched: compiles, demo fails, lib tests pass.
WT=$1; SD=$2; DEMO=$3; shift 3
export CARGO_TARGET_DIR=${CONFIRM_TARGET:-/tmp/seed/target} CARGO_NET_OFFLINE=true
cd $WT || exit 2
git checkout -q -- . ; cp $SD/demo.rs tests/$DEMO.rs
echo "--- pristine demo"; cargo test --offline --test $DEMO 2>&1 | grep -E "^test result|^error" | head -3
git apply $SD/patch.diff || { echo "PATCH DOES NOT APPLY"; exit 1; }
echo "--- patched demo (must fail)"; cargo test --offline --test $DEMO 2>&1 | grep -E "^test result|error(\[|:)" | head -3
echo "--- patched lib tests"; cargo test --offline --lib "$@" 2>&1 | grep -E "^test result|FAILED|failed" | head -8
git checkout -q -- . ; rm -f tests/$DEMO.rs
