#!/bin/bash
# usage: tools/seed_test.sh <patch.diff> <ID> [<ID>…]   — apply a seeded change to /repo, run the quick checks, undo it.
P=$(readlink -f "$1"); shift
cd /repo || exit 2
if ! git diff --quiet; then echo "/repo has uncommitted changes; refusing"; exit 2; fi
git apply "$P" || { echo "patch does not apply"; exit 2; }
CHANGED=$(git diff --name-only)
sleep 1; touch $CHANGED   # cargo's mtime fingerprint must see the edit
trap 'cd /repo; git checkout -- . ; git clean -fdq -- src tests 2>/dev/null; sleep 1; touch $CHANGED 2>/dev/null' EXIT
cd /verif
for id in "$@"; do
  echo "=== $id with $(basename $(dirname $P))/$(basename $P)"
  cp evidence/$id.json /tmp/seed_test.$$.ev 2>/dev/null
  ./check $id --tier ${TIER:-quick} > /tmp/seed_test.$$.log 2>&1; rc=$?
  cp /tmp/seed_test.$$.ev evidence/$id.json 2>/dev/null; rm -f /tmp/seed_test.$$.ev
  tail -8 /tmp/seed_test.$$.log; rm -f /tmp/seed_test.$$.log
  echo "exit=$rc"
done
