#!/bin/bash
# usage: tools/seed_test.sh <patch.diff> <ID> [<ID>…]   — apply a seeded change to the code tree, run the quick checks, undo it.
# By default works on /verif + /repo; VERIF_DIR=<clone of /verif> runs in that clone against the tree named in its .verif_repo
# (so seeds can be tested while /repo is busy with other runs).
P=$(readlink -f "$1"); shift
V=${VERIF_DIR:-/verif}
R=$(cat $V/.verif_repo 2>/dev/null || echo /repo)
cd $R || exit 2
if ! git diff --quiet; then echo "$R has uncommitted changes; refusing"; exit 2; fi
git apply "$P" || { echo "patch does not apply"; exit 2; }
CHANGED=$(git diff --name-only)
sleep 1; touch $CHANGED   # cargo's mtime fingerprint must see the edit
trap 'cd $R; git checkout -- . ; git clean -fdq -- src tests 2>/dev/null; sleep 1; touch $CHANGED 2>/dev/null' EXIT
cd $V
T=$(mktemp -d)
for id in "$@"; do
  echo "=== $id with $(basename $(dirname $P))/$(basename $P)"
  cp evidence/$id.json $T/ev 2>/dev/null
  ./check $id --tier ${TIER:-quick} > $T/log 2>&1; rc=$?
  cp $T/ev evidence/$id.json 2>/dev/null
  tail -8 $T/log
  echo "exit=$rc"
done
rm -rf $T
