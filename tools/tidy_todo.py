#!/usr/bin/env python3
"""GIT_SEQUENCE_EDITOR for the one-off tidy of /repo main's history (see DESIGN.md §8 "History of /repo main"):
drops fix/revert pairs that cancel out, folds follow-up commits into the fix they complete. Usage: tidy_todo.py <todo>"""
import sys, re, json, os
todo = sys.argv[1]
lines = [l.rstrip("\n") for l in open(todo) if l.strip() and not l.startswith("#")]
DROP = ["fix: sending on an in-band data channel that is still Connecting is refused",
        "fix: sending on a pre-negotiated data channel before the association is up is refused too",
        "fix: sending on a data channel that is still Connecting is accepted again",
        "fix: close() aborts the connection's tracked tasks",
        "fix: close() no longer aborts the tracked tasks (reverts",
        "fix: TWCC marshal rejects a reference time above 24 bits instead of masking it",
        "fix: TWCC reference time wraps modulo 2^24 again"]
# follow-up subject prefix -> (target subject prefix, new message or None)
FOLD = {"fix: follow-up to e9a7a17": ("fix: the DCEP OPEN of an in-band channel is queued before the first user data", None),
        "fix: an unregistered MID only vetoes receivers of another media section": (
            "fix: drop an inbound RTP packet whose MID no receiver registered",
            "fix: an inbound RTP packet naming a MID that no receiver registered is not handed to a receiver of another media section "
            "(it was routed by SSRC / payload type / provisional listener into whatever section matched; receivers of the section that "
            "could own the packet are still tried)")}
out, folds = [], {}
for l in lines:
    m = re.match(r"pick (\w+) (.*)", l)
    if not m: out.append(l); continue
    subj = m.group(2)
    if any(subj.startswith(d) for d in DROP): continue
    f = [k for k in FOLD if subj.startswith(k)]
    if f: folds[f[0]] = m.group(1); continue
    out.append(l)
res = []
for l in out:
    res.append(l)
    m = re.match(r"pick (\w+) (.*)", l)
    if not m: continue
    for k, (tgt, msg) in FOLD.items():
        if m.group(2).startswith(tgt) and k in folds:
            res.append("fixup %s" % folds[k])
            if msg:
                mf = "/work/tidy_tools/msg_%s.txt" % folds[k]
                open(mf, "w").write(msg + "\n")
                res.append("exec git commit -q --amend -F %s" % mf)
open(todo, "w").write("\n".join(res) + "\n")
