"""Per-property configuration used by ./check (rules, trusted-base notes, assumptions)."""
PROPS = {}   # filled from tools/propcfg.d/*.json (one fragment per property) and tools/claims.d/*.json

import os as _os, json as _json, glob as _glob
for _f in sorted(_glob.glob(_os.path.join(_os.path.dirname(_os.path.abspath(__file__)), "propcfg.d", "*.json"))):
    PROPS.update(_json.load(open(_f)))
# per-property claim texts (MANIFEST level_claimed.text / technique) and the list of helper lemmas kept in the theorem file
for _f in sorted(_glob.glob(_os.path.join(_os.path.dirname(_os.path.abspath(__file__)), "claims.d", "*.json"))):
    for _k, _v in _json.load(open(_f)).items():
        PROPS.setdefault(_k, {}).update(_v)
