"""Per-property configuration used by ./check (rules, trusted-base notes, assumptions)."""
PROPS = {
 "C18": {
  "consts": True,
  "rule": "exhaustive: every sequence of the stated length over the 21-symbol alphabet ({A,B,C} x {RTP expected-SSRC x marker x seq +1/-3, RTP other SSRC, RTCP} + reset, signaling retarget, pair update) for each probation setting, plus seeded random sequences of length 1..300 with malformed/short/DTLS/garbage packets, unset destinations and API ops; a case is non-trivial when the latch commits or the destination moves; distinct = distinct op lines",
  "trusted": ["modelled, not verified: IceConn::receive latch/address logic and latch API (src/transports/ice/conn.rs) as the hand-written RtcModel/Latch.lean; sockets, send paths and forwarding targets are outside the model (forwarding slot is compared)"],
  "assumptions": ["datagram socket (tcp=false) with configured destination (port != 0) for the sticky/move theorems; the bootstrap adoption of the first source while no destination is configured is modelled and compared but outside the statement",
                  "Relaxed atomics in IceConn are modelled as one sequential step per receive() call (single receive loop per connection)"],
 },
}

import os as _os, json as _json, glob as _glob
for _f in sorted(_glob.glob(_os.path.join(_os.path.dirname(_os.path.abspath(__file__)), "propcfg.d", "*.json"))):
    PROPS.update(_json.load(open(_f)))
