#!/bin/bash
# One-off tidy of /repo main's history (DESIGN.md §8 "Outside review …"): builds branch `tidy` in a scratch worktree, never
# touches /repo's working tree. Afterwards:  git -C /repo diff main tidy   must show comments only; then
#   git -C /repo branch -f pre-tidy main && git -C /repo reset --hard tidy   (in /repo, on main, clean tree)
set -e
W=${1:-/work/tidy}
BASE=$(git -C /repo rev-list --max-parents=0 main)
git -C /repo worktree remove --force $W 2>/dev/null || true
git -C /repo branch -D tidy 2>/dev/null || true
git -C /repo worktree add -q $W -b tidy main
mkdir -p /work/tidy_tools
cd $W
GIT_SEQUENCE_EDITOR="python3 /verif/tools/tidy_todo.py" git rebase -i $BASE > /work/tidy_tools/rebase.log 2>&1 || { tail -5 /work/tidy_tools/rebase.log; exit 1; }
cat > /work/tidy_tools/msgfix.sed <<'S'
/^(cherry picked from commit/d
s/\b9b157ce\b/the hook commit "lifecycle accessors"/g
s/\b72b5b7a\b/the hook commit "DtlsTransport::verif_force_state \/ verif_null_session"/g
s/\b553d6e5\b/the SDES-SRTP start fix/g
s/\b47cd06a\b/the SDES-SRTP start fix/g
s/\b10459f2\b/the SDES-SRTP start fix/g
s/\b259f28d\b/the fix "a connection that ends Failed closes its never-opened data channels"/g
s/\b222111b\b/the fix "wait_for_connected returns an error once the connection is Disconnected"/g
s/\b10625e4\b/the hook commit "verif_negotiated \/ verif_ice_role_controlling"/g
s/(0ee6325, reverted)/(an earlier attempt that was not kept)/g
s/\b0ee6325\b/an earlier attempt that was not kept/g
S
FILTER_BRANCH_SQUELCH_WARNING=1 git filter-branch -f --msg-filter 'sed -f /work/tidy_tools/msgfix.sed' $BASE..tidy > /dev/null 2>&1
echo "tidy: $(git log --oneline tidy | wc -l) commits (main: $(git log --oneline main | wc -l))"
git diff main tidy --stat
# hashes still quoted in commit messages that are not commits of the tidy branch
git log tidy --format='%b %s' $BASE..tidy | tr '\n' ' ' | grep -oE "\b[0-9a-f]{7,10}\b" | sort -u | while read h; do
  if echo $h | grep -q '[a-f]' && echo $h | grep -q '[0-9]' && [ "$(git cat-file -t $h 2>/dev/null)" = commit ] && ! git merge-base --is-ancestor $h tidy 2>/dev/null; then
    echo "dangling in a commit message: $h $(git log -1 --format=%s $h | cut -c1-70)"; fi; done
