#!/usr/bin/env python3
"""Folds known_findings.d/*.json (per-property fragments written while building) into the single committed
known_findings.json, resolving every `fixed` entry's commit to the hash of the fix: commit on /repo main."""
import json, glob, os, subprocess, re
ROOT = os.path.normpath(os.path.join(os.path.dirname(os.path.abspath(__file__)), ".."))
log = subprocess.run(["git", "-C", "/repo", "log", "main", "--format=%h\t%s\t%b%x00"], stdout=subprocess.PIPE, text=True).stdout
commits = []
for rec in log.split("\x00"):
    rec = rec.strip("\n")
    if not rec: continue
    h, s, b = (rec.split("\t", 2) + ["", ""])[:3]
    commits.append((h, s, b))
_alias = {}
_ap = os.path.join(ROOT, "tools", "rehash_aliases.json")
if os.path.exists(_ap): _alias = json.load(open(_ap))       # hashes of the pre-tidy history / builder branches -> subject
def resolve(c):
    if not c: return None
    c = c.strip()
    if re.fullmatch(r"[0-9a-f]{7,40}", c) and c[:7] in _alias: c = _alias[c[:7]]
    if 'SDES-SRTP answerer waits for its local description' in c or 'SDES-SRTP transport start also waits' in c or 'SDES-SRTP wait for descriptions' in c:
        c = 'fix: SDES-SRTP direct transport start waits for both descriptions'
    for h, s, b in commits:
        if c == s or s.startswith(c) or (len(c) >= 7 and re.fullmatch(r"[0-9a-f]{7,40}", c) and (h.startswith(c[:7]) or c[:7] in b)):
            return h
    # subject given with a leading hash ("abc1234 fix: …") or partial subject
    m = re.match(r"^([0-9a-f]{7,40})\b", c)
    if m:
        for h, s, b in commits:
            if m.group(1)[:7] in b or h.startswith(m.group(1)[:7]): return h
    c2 = re.sub(r"^[0-9a-f]{7,40}\s+", "", c)      # "abc1234 fix: …" written with a builder-branch hash: match by subject
    for h, s, b in commits:
        if c2 and (c2 == s or s.startswith(c2) or c2.startswith(s)): return h
    for h, s, b in commits:
        if c2[:60] and c2[:60] in s: return h
    return None
base = json.load(open(os.path.join(ROOT, "known_findings.json")))
out = []
unresolved = []
for fn in sorted(glob.glob(os.path.join(ROOT, "known_findings.d", "*.json"))):
    for f in json.load(open(fn))["findings"]:
        f = dict(f)
        if f.get("status") == "fixed":
            h = resolve(f.get("commit", ""))
            if h:
                f["commit_in_agent_branch"] = f.get("commit"); f["commit"] = h
            else:
                unresolved.append((f["property"], f["signature"], f.get("commit")))
            if not f.get("description", "").startswith("fixed:"):
                f["description"] = "fixed: property=%s %s %s" % (f["property"], f.get("commit"), f.get("description", ""))
        out.append(f)
base["findings"] = out
json.dump(base, open(os.path.join(ROOT, "known_findings.json"), "w"), indent=1)
print("findings:", len(out), "known:", sum(1 for f in out if f["status"] == "known"), "fixed:", sum(1 for f in out if f["status"] == "fixed"))
for u in unresolved: print("UNRESOLVED commit for", u)
