#!/usr/bin/env python3
"""Rebuilds DESIGN.md §9 (per-property as-built notes) from NOTES/Cxx.md, and the seeded-change table from seeded/*/meta.json."""
import os, glob, json, re
ROOT = os.path.normpath(os.path.join(os.path.dirname(os.path.abspath(__file__)), ".."))
p = os.path.join(ROOT, "DESIGN.md")
s = open(p).read()
marker = "\n## 9. Per-property as-built notes (generated from NOTES/*.md by tools/fold_design.py)\n"
if marker in s: s = s[: s.index(marker)]
out = [marker, "\nEach subsection is the builder's own note for that property: model scope, theorem list, what is not modelled,\nfindings, and the code mutations tried against the check. C18's note is in §8.\n"]
for f in sorted(glob.glob(os.path.join(ROOT, "NOTES", "C*.md"))):
    pid = os.path.basename(f)[:-3]
    body = open(f).read().strip()
    body = re.sub(r"^# .*\n", "", body, count=1)               # drop the file's own H1
    body = re.sub(r"^(#{1,4}) ", lambda m: "#" * min(6, len(m.group(1)) + 2) + " ", body, flags=re.M)
    out.append("\n### %s — as built\n\n%s\n" % (pid, body))
out.append("\n## 10. Seeded breaking changes and which checks catch them\n\nEvery change below was written by a fresh sub-agent that saw only the property text and a scratch worktree, was confirmed by the coordinator (compiles, the repository's tests still pass, the demonstration fails with it and passes without it), and was then applied to /repo, checked and reverted (`tools/seed_test.sh`).\n\n| seed | property | what it breaks (short) | needs to manifest | result of `./check <ID> --tier quick` |\n|---|---|---|---|---|\n")
for d in sorted(p for p in glob.glob(os.path.join(ROOT, "seeded", "*")) if os.path.isdir(p)):
    m = json.load(open(os.path.join(d, "meta.json")))
    cut = lambda t, n: (t or "").replace("\n", " ").replace("|", "/")[:n]
    out.append("| %s | %s | %s | %s | %s |\n" % (os.path.basename(d), m.get("property"), cut(m.get("breaks"), 260), cut(m.get("needs_to_manifest"), 220), cut(m.get("detected_by") if isinstance(m.get("detected_by"), str) else json.dumps(m.get("detected_by")), 300)))
open(p, "w").write(s.rstrip("\n") + "\n" + "".join(out))
print("DESIGN.md rebuilt: %d notes, %d seeds" % (len(glob.glob(os.path.join(ROOT, 'NOTES', 'C*.md'))), len(glob.glob(os.path.join(ROOT, 'seeded', '*')))))
