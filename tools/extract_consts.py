#!/usr/bin/env python3
"""Translator T: re-reads constants / small tables from /repo's Rust sources and regenerates
lean/RtcModel/Generated/Consts.lean.  Deliberately dumb: anchored regexes; a missing anchor is a
*broken tie* (exit 2, message names the anchor) and is handled by ./check like a broken proof.

Each entry: (lean_name, file, regex with ONE capture group giving an integer literal (dec/hex, `_` ok)
             or a python callable(match)->int, doc)
"""
import os, re, sys, json

def _repo():
    if os.environ.get("VERIF_REPO"): return os.environ["VERIF_REPO"]
    f = os.path.join(os.path.dirname(os.path.abspath(__file__)), "..", ".verif_repo")
    return open(f).read().strip() if os.path.exists(f) else "/repo"
REPO = _repo()
OUT = os.path.join(os.path.dirname(os.path.abspath(__file__)), "..", "lean", "RtcModel", "Generated", "Consts.lean")

def lit(s):
    s = s.replace("_", "").strip()
    for suf in ("usize", "u64", "u32", "u16", "u8", "i64", "i32"):
        if s.endswith(suf):
            s = s[: -len(suf)]
    return int(s, 16) if s.lower().startswith("0x") else int(s)

C = "src/transports/ice/conn.rs"
ENTRIES = [
    # ---- C18 / demux byte ranges in IceConn::receive
    ("dtlsLo", C, r"if \((\d+)\.\.\d+\)\.contains\(&first_byte\) \{\s*// DTLS", "first byte range → DTLS (lo)"),
    ("dtlsHi", C, r"if \(\d+\.\.(\d+)\)\.contains\(&first_byte\) \{\s*// DTLS", "first byte range → DTLS (hi, excl)"),
    ("rtpLo", C, r"else if \((\d+)\.\.\d+\)\.contains\(&first_byte\) \{\s*// RTP / RTCP", "RTP/RTCP range lo"),
    ("rtpHi", C, r"else if \(\d+\.\.(\d+)\)\.contains\(&first_byte\) \{\s*// RTP / RTCP", "RTP/RTCP range hi (excl)"),
    ("rtcpPtLo", C, r"let is_rtcp = packet\.len\(\) >= 2 && \((\d+)\.\.=\d+\)\.contains\(&packet\[1\]\)", "RTCP PT lo"),
    ("rtcpPtHi", C, r"let is_rtcp = packet\.len\(\) >= 2 && \(\d+\.\.=(\d+)\)\.contains\(&packet\[1\]\)", "RTCP PT hi (incl)"),
    ("latchMinRtpLen", C, r"!self\.rtp_latched\.load\(Ordering::Relaxed\) && packet\.len\(\) >= (\d+)", "min RTP len for latching"),
    ("probationRule2MinTotal", C, r"let run_winner = if total >= (\d+) \{", "rule 2: min total packets"),
    ("probationRule2MinConsecutive", C, r"\.find\(\|c\| c\.consecutive_count >= (\d+)\)", "rule 2: min consecutive"),
    # ---- C18 / packet layout read by the latching arm, counter widths
    ("latchRtcpMinLen", C, r"let is_rtcp = packet\.len\(\) >= (\d+) &&", "min length for the RTCP PT test"),
    ("latchRtcpPtOff", C, r"let is_rtcp = packet\.len\(\) >= \d+ && \(\d+\.\.=\d+\)\.contains\(&packet\[(\d+)\]\)", "offset of the RTCP packet type byte"),
    ("latchSsrcOff", C, r"let pkt_ssrc =\s*u32::from_be_bytes\(\[packet\[(\d+)\], packet\[\d+\], packet\[\d+\], packet\[\d+\]\]\)", "SSRC offset (4 bytes, big endian)"),
    ("latchSsrcEnd", C, r"let pkt_ssrc =\s*u32::from_be_bytes\(\[packet\[\d+\], packet\[\d+\], packet\[\d+\], packet\[(\d+)\]\]\)", "last SSRC byte"),
    ("latchSeqOff", C, r"let seq = u16::from_be_bytes\(\[packet\[(\d+)\], packet\[\d+\]\]\)", "sequence number offset (2 bytes)"),
    ("latchSeqEnd", C, r"let seq = u16::from_be_bytes\(\[packet\[\d+\], packet\[(\d+)\]\]\)", "last sequence number byte"),
    ("latchTsOff", C, r"let ts = u32::from_be_bytes\(\[packet\[(\d+)\], packet\[\d+\], packet\[\d+\], packet\[\d+\]\]\)", "timestamp offset (4 bytes)"),
    ("latchTsEnd", C, r"let ts = u32::from_be_bytes\(\[packet\[\d+\], packet\[\d+\], packet\[\d+\], packet\[(\d+)\]\]\)", "last timestamp byte"),
    ("latchMarkerOff", C, r"let marker = \(packet\[(\d+)\] & 0x[0-9a-fA-F]+\) != 0;", "offset of the marker byte"),
    ("latchMarkerMask", C, r"let marker = \(packet\[\d+\] & (0x[0-9a-fA-F]+)\) != 0;", "marker bit mask"),
    # ---- C18 / the documented rules (doc comment of RtpCandidateState): order and thresholds as written there
    ("docRuleMarkerIdx", C, r"/// (\d+)\. \*\*Marker flush\*\*", "position of the marker rule in the doc comment"),
    ("docRuleRunIdx", C, r"/// (\d+)\. \*\*Consecutive dominance\*\*", "position of the run rule in the doc comment"),
    ("docRuleTimeoutIdx", C, r"/// (\d+)\. \*\*Timeout fallback\*\*", "position of the timeout rule in the doc comment"),
    ("docRule2MinConsecutive", C, r"\*\*Consecutive dominance\*\*: a candidate with `consecutive_count >= (\d+)`", "doc comment: run threshold"),
    ("docRule2MinTotal", C, r"that also has accumulated `>= (\d+)` total packets", "doc comment: total threshold of rule 2"),
    ("probTotalBits", C, r"struct RtpProbationState \{[^}]*?total_packets: u(\d+),", "width of total_packets"),
    ("probMaxBits", C, r"struct RtpProbationState \{[^}]*?max_packets: u(\d+),", "width of max_packets"),
    ("candCountBits", C, r"struct RtpCandidateState \{[^}]*?packet_count: u(\d+),", "width of packet_count"),
    ("candConsecBits", C, r"struct RtpCandidateState \{[^}]*?consecutive_count: u(\d+),", "width of consecutive_count"),
    ("candSeqBits", C, r"struct RtpCandidateState \{[^}]*?first_seq: u(\d+),", "width of first_seq / last_seq"),
]

def load_extra():
    """Further entries live in tools/consts.d/*.json: [[name,file,regex,doc],...]"""
    d = os.path.join(os.path.dirname(os.path.abspath(__file__)), "consts.d")
    out = []
    if os.path.isdir(d):
        for fn in sorted(os.listdir(d)):
            if fn.endswith(".json"):
                for e in json.load(open(os.path.join(d, fn))):
                    out.append(tuple(e))
    return out

def main():
    cache = {}
    vals, missing = [], []
    seen = set()
    for name, f, rx, doc in ENTRIES + load_extra():
        if name in seen:
            missing.append((name, f, rx, 'duplicate constant name')); continue
        seen.add(name)
        if f not in cache:
            try:
                cache[f] = open(os.path.join(REPO, f), encoding="utf-8").read()
            except OSError as e:
                cache[f] = ""
        ms = list(re.finditer(rx, cache[f], re.S))
        if len(ms) != 1:
            missing.append((name, f, rx, len(ms)))
            continue
        try:
            vals.append((name, lit(ms[0].group(1)), f, doc))
        except Exception as e:
            missing.append((name, f, rx, "bad literal %r" % ms[0].group(1)))
    if missing:
        for m in missing:
            print("extract_consts: anchor not found/ambiguous: %s in %s (matches=%s) /%s/" % (m[0], m[1], m[3], m[2]), file=sys.stderr)
        print(json.dumps({"missing": [m[0] for m in missing]}))
        sys.exit(2)
    lines = ["/- GENERATED by tools/extract_consts.py from /repo sources on every run. DO NOT EDIT. -/",
             "namespace RtcModel.Generated", ""]
    for name, v, f, doc in vals:
        lines.append("/-- %s — `%s` -/" % (doc, f))
        lines.append("def %s : Nat := %d" % (name, v))
        lines.append("@[simp] theorem %s_val : %s = %d := rfl" % (name, name, v))
        lines.append("")
    lines.append("end RtcModel.Generated")
    txt = "\n".join(lines) + "\n"
    out = os.path.normpath(OUT)
    os.makedirs(os.path.dirname(out), exist_ok=True)
    old = open(out).read() if os.path.exists(out) else None
    if old != txt:
        open(out, "w").write(txt)
    print(json.dumps({"constants": len(vals), "changed": old != txt, "values": {n: v for n, v, _, _ in vals}}))

if __name__ == "__main__":
    main()
