#!/usr/bin/env python3
"""usage: tools/pick_append.py <commit>   (run with cwd=/repo, clean tree)
Re-applies a commit whose hunks conflict only because several hook commits appended at the end of the same files:
per file, try `git apply` of that file's patch (with --3way fallback off); if that fails and every hunk is pure addition,
append the added lines of end-of-file hunks at the end of the current file. Commits with the original message."""
import subprocess, sys, re
c = sys.argv[1]
def sh(*a, inp=None, check=True):
    p = subprocess.run(a, input=inp, stdout=subprocess.PIPE, stderr=subprocess.PIPE, text=True)
    if check and p.returncode: raise SystemExit("FAILED %s\n%s" % (a, p.stderr))
    return p
msg = sh("git", "log", "-1", "--format=%B", c).stdout.strip()
files = sh("git", "show", "--format=", "--name-only", c).stdout.split()
for f in files:
    patch = sh("git", "show", "--format=", c, "--", f).stdout
    p = subprocess.run(["git", "apply", "-"], input=patch, text=True, stderr=subprocess.PIPE)
    if p.returncode == 0:
        print("applied  ", f); continue
    hunks = re.split(r"^@@ .*?@@.*$", patch, flags=re.M)[1:]
    heads = re.findall(r"^@@ -(\d+)(?:,(\d+))? \+(\d+)(?:,(\d+))? @@", patch, flags=re.M)
    old_len = len(sh("git", "show", c + "^:" + f, check=False).stdout.splitlines())
    out = []
    for (os_, ol, ns, nl), body in zip(heads, hunks):
        lines = body.strip("\n").split("\n")
        if any(l.startswith("-") for l in lines):
            raise SystemExit("hunk in %s deletes lines; resolve by hand" % f)
        ol = int(ol or 1)
        if int(os_) + ol - 1 < old_len - 0 and not (int(os_) + ol - 1 >= old_len - 1):
            raise SystemExit("hunk in %s is not at end of file (old %s+%s of %d); resolve by hand" % (f, os_, ol, old_len))
        out += [l[1:] for l in lines if l.startswith("+")]
    cur = open(f).read()
    if not cur.endswith("\n"): cur += "\n"
    open(f, "w").write(cur + "\n".join(out) + "\n")
    print("appended ", f, len(out), "lines")
sh("git", "add", "-A")
sh("git", "commit", "-q", "-m", msg + "\n\n(re-applied from %s)" % c)
print("committed:", msg.splitlines()[0])
