#!/bin/bash
# re-test every kept seed against the current tree; writes seeded/RESULTS.md
cd /verif
echo "| seed | property | result on $(git -C /repo rev-parse --short HEAD) |" > /tmp/seed_results.md; echo "|---|---|---|" >> /tmp/seed_results.md
for d in seeded/*/; do
  s=$(basename $d); id=$(python3 -c "import json;print(json.load(open('$d/meta.json'))['property'])")
  if [ -n "$SKIP" ] && echo " $SKIP " | grep -q " $id "; then echo "| $s | $id | skipped (check currently being repaired) |" | tee -a /tmp/seed_results.md; continue; fi
  out=$(tools/seed_test.sh $d/patch.diff $id 2>&1)
  if echo "$out" | grep -q "patch does not apply"; then r="PATCH DOES NOT APPLY (needs rebase)";
  elif echo "$out" | grep -q "^VIOLATION.*no-failing-input-found" && ! echo "$out" | grep "^VIOLATION" | grep -qv "no-failing-input-found"; then r="VIOLATION no-failing-input-found";
  elif echo "$out" | grep -q "^VIOLATION"; then r="VIOLATION with replay ($(echo "$out" | grep -c '^VIOLATION') lines)";
  else r="MISSED (exit 0)"; fi
  echo "| $s | $id | $r |" | tee -a /tmp/seed_results.md
done
cp /tmp/seed_results.md seeded/RESULTS.md
