#!/bin/bash
# re-test kept seeds against the current tree; results are cached per seed in seeded/.results.tsv and seeded/RESULTS.md is
# regenerated from the cache. ONLY="C04 C05" restricts to those properties, SKIP="…" leaves some out.
# VERIF_DIR=<clone> runs the checks in that clone (against the tree named in its .verif_repo) so /repo and /verif stay untouched.
cd /verif
V=${VERIF_DIR:-/verif}; R=$(cat $V/.verif_repo 2>/dev/null || echo /repo)
touch seeded/.results.tsv
for d in seeded/*/; do
  s=$(basename $d); id=$(python3 -c "import json;print(json.load(open('$d/meta.json'))['property'])")
  if [ -n "$SKIP" ] && echo " $SKIP " | grep -q " $id "; then continue; fi
  if [ -n "$ONLY" ] && ! echo " $ONLY " | grep -q " $id "; then continue; fi
  out=$(tools/seed_test.sh $d/patch.diff $id 2>&1)
  if echo "$out" | grep -q "patch does not apply"; then r="PATCH DOES NOT APPLY (needs rebase)";
  elif echo "$out" | grep -q "^VIOLATION.*no-failing-input-found" && ! echo "$out" | grep "^VIOLATION" | grep -qv "no-failing-input-found"; then r="VIOLATION no-failing-input-found";
  elif echo "$out" | grep -q "^VIOLATION"; then r="VIOLATION with replay";
  else r="MISSED (exit 0)"; fi
  grep -v "^$s	" seeded/.results.tsv > seeded/.results.tmp; mv seeded/.results.tmp seeded/.results.tsv
  printf "%s\t%s\t%s\t%s\t%s\n" "$s" "$id" "$r" "$(git -C $R rev-parse --short HEAD)" "$(date -u +%Y-%m-%dT%H:%MZ)" >> seeded/.results.tsv
  echo "$s $id $r"
done
{ echo "Every kept seeded change re-applied to the code tree and the quick check of its property run (tools/seed_all.sh → tools/seed_test.sh)."; echo;
  echo "| seed | property | result | tree | when |"; echo "|---|---|---|---|---|";
  sort seeded/.results.tsv | awk -F'\t' '{print "| "$1" | "$2" | "$3" | "$4" | "$5" |"}'; } > seeded/RESULTS.md
