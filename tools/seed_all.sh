#!/bin/bash
# re-test every kept seed against the current tree; writes seeded/RESULTS.md.  VERIF_DIR=<clone> runs the checks in that clone
# (against the tree named in its .verif_repo) so that /repo and /verif stay untouched; see tools/seed_test.sh.
cd /verif
V=${VERIF_DIR:-/verif}; R=$(cat $V/.verif_repo 2>/dev/null || echo /repo)
T=$(mktemp)
echo "Every kept seeded change re-applied to the code tree ($(git -C $R rev-parse --short HEAD), $(date -u +%Y-%m-%dT%H:%MZ)) and the quick check of its property run (tools/seed_all.sh → tools/seed_test.sh)." > $T
echo >> $T; echo "| seed | property | result |" >> $T; echo "|---|---|---|" >> $T
for d in seeded/*/; do
  s=$(basename $d); id=$(python3 -c "import json;print(json.load(open('$d/meta.json'))['property'])")
  if [ -n "$SKIP" ] && echo " $SKIP " | grep -q " $id "; then echo "| $s | $id | skipped |" | tee -a $T; continue; fi
  out=$(tools/seed_test.sh $d/patch.diff $id 2>&1)
  if echo "$out" | grep -q "patch does not apply"; then r="PATCH DOES NOT APPLY (needs rebase)";
  elif echo "$out" | grep -q "^VIOLATION.*no-failing-input-found" && ! echo "$out" | grep "^VIOLATION" | grep -qv "no-failing-input-found"; then r="VIOLATION no-failing-input-found";
  elif echo "$out" | grep -q "^VIOLATION"; then r="VIOLATION with replay";
  else r="MISSED (exit 0)"; fi
  echo "| $s | $id | $r |" | tee -a $T
done
cp $T seeded/RESULTS.md; rm -f $T
