#!/bin/bash
# usage: tools/mk_agent.sh <name>   → isolated workspace /work/agents/<name>/{verif,repo,tmp}
set -e
N=$1; W=/work/agents/$N
mkdir -p $W/tmp
git clone -q /verif $W/verif
git -C /repo worktree add -q $W/repo -b agent-$N
cp /repo/Cargo.lock $W/repo/Cargo.lock
echo "$W/repo" > $W/verif/.verif_repo
mkdir -p $W/verif/harness $W/verif/lean
cp -r /verif/harness/target $W/verif/harness/target 2>/dev/null || true
cp -r /verif/lean/.lake $W/verif/lean/.lake 2>/dev/null || true
git -C $W/verif config user.name "agent-$N"; git -C $W/verif config user.email "agent@local"
echo "workspace $W ready"
