#!/bin/bash
# run every claimed check (quick by default), summarise
cd /verif
for id in $(grep -v '^#' tools/claimed.txt); do
  s=$(date +%s); out=$(./check $id --tier ${TIER:-quick} 2>&1); rc=$?
  echo "$id rc=$rc $(( $(date +%s)-s ))s :: $(echo "$out" | grep -E "^C[0-9]+ tier" )"
  echo "$out" | grep -E "^VIOLATION|^BROKEN" | head -3
done
