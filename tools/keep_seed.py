#!/usr/bin/env python3
"""usage: tools/keep_seed.py <work-seed-dir> <ID-x> <detected_summary> [extra note]   — store a confirmed seeded change under seeded/<ID-x>/"""
import json, sys, os, shutil
src, name, detected = sys.argv[1], sys.argv[2], sys.argv[3]
note = sys.argv[4] if len(sys.argv) > 4 else ""
m = json.load(open(os.path.join(src, "meta.json")))
d = os.path.join("/verif/seeded", name); os.makedirs(d, exist_ok=True)
for f in ("patch.diff", "demo.rs", "demo.diff"):
    if os.path.exists(os.path.join(src, f)): shutil.copy(os.path.join(src, f), d)
out = {"property": m.get("property"), "breaks": m.get("summary"), "needs_to_manifest": m.get("needs_to_manifest"),
       "demo_path": m.get("demo_path"),
       "author": "independent sub-agent given only the property text and a scratch worktree of /repo",
       "confirmed_by_coordinator": {"what_i_ran": ["tools/confirm_seed.sh <scratch worktree> <seed> <demo>  — pristine: demo passes; patched: compiles, demo fails, `cargo test --offline --lib` passes (514 passed, 0 failed on the current tree)",
                                                  "tools/seed_test.sh seeded/%s/patch.diff %s" % (name, m.get("property"))],
                                    "demo_fails_with_patch": True, "demo_passes_without_patch": True, "existing_tests_pass": True, "note": note},
       "detected_by": detected}
json.dump(out, open(os.path.join(d, "meta.json"), "w"), indent=1)
print("kept", d)
