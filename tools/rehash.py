#!/usr/bin/env python3
"""Rewrites commit hashes quoted in the documentation so that they name commits on /repo main.

Builders worked on branches; their notes quote branch hashes, and main carries cherry-picks (or, after the final
history tidy-up, rewritten commits) with the same subject. For every 7–12 digit hex token in the given files that
names a commit object in /repo which is NOT an ancestor of main, the main commit with the same subject line is looked
up and its short hash substituted. Tokens that cannot be mapped are left alone and reported.

usage: tools/rehash.py [--dry] [--map old2new.json] <file>…      (default files: NOTES/*.md known_findings.d/*.json
                                                                  tools/propcfg.d/*.json tools/claims.d/*.json DESIGN.md seeded/*/meta.json)
--map: extra {old_hash_prefix: subject} pairs for commits whose objects are gone (written by tools/tidy_history.sh)."""
import sys, os, re, json, glob, subprocess
ROOT = os.path.normpath(os.path.join(os.path.dirname(os.path.abspath(__file__)), ".."))
REPO = "/repo"
def git(*a):
    return subprocess.run(["git", "-C", REPO] + list(a), stdout=subprocess.PIPE, stderr=subprocess.DEVNULL, text=True).stdout
main = {}           # subject -> short hash on main (last wins = oldest first iteration order reversed)
on_main = set()
for l in git("log", "main", "--format=%H %s").splitlines():
    h, s = l.split(" ", 1)
    on_main.add(h)
    main.setdefault(s, h[:7])
def norm(s):
    return re.sub(r"\s+", " ", s.strip())
main_norm = {norm(k): v for k, v in main.items()}
args = sys.argv[1:]
dry = "--dry" in args
if dry: args.remove("--dry")
extra = {}
if "--map" in args:
    i = args.index("--map"); extra = json.load(open(args[i + 1])); del args[i:i + 2]
files = args or sum([glob.glob(os.path.join(ROOT, p)) for p in
    ("NOTES/*.md", "known_findings.d/*.json", "tools/propcfg.d/*.json", "tools/claims.d/*.json", "DESIGN.md", "seeded/*/meta.json")], [])
cache = {}
def resolve(tok):
    if tok in cache: return cache[tok]
    r = None
    full = git("rev-parse", "--verify", "--quiet", tok + "^{commit}").strip()
    subj = None
    for k, v in extra.items():          # explicit aliases win (squashed commits: old hash -> subject of the squashed one)
        if k.startswith(tok) or tok.startswith(k): subj = v
    if subj:
        pass
    elif full:
        if full in on_main: cache[tok] = None; return None      # already fine
        subj = git("show", "-s", "--format=%s", full).strip()
        body = git("show", "-s", "--format=%b", full)
        m = re.search(r"cherry picked from commit ([0-9a-f]{40})", body)
    if subj:
        r = main.get(subj) or main_norm.get(norm(subj))
        if not r:   # the main commit may carry a "(cherry picked from …)" trailer naming this one, or a squashed subject
            for l in git("log", "main", "--format=%h %b%x00").split("\0"):
                if full and full in l: r = l.strip().split(" ")[0]; break
        if not r: r = "?" + subj[:60]
    cache[tok] = r
    return r
unmapped = {}
total = 0
for f in sorted(files):
    s = open(f).read()
    def sub(m):
        global total
        tok = m.group(0)
        if not re.search(r"[a-f]", tok) or not re.search(r"[0-9]", tok): return tok   # plain numbers / words
        r = resolve(tok)
        if r is None: return tok
        if r.startswith("?"):
            unmapped.setdefault(tok, (r[1:], []))[1].append(os.path.relpath(f, ROOT)); return tok
        total += 1
        return r
    t = re.sub(r"(?<![0-9a-zA-Z_/.\-])[0-9a-f]{7,12}(?![0-9a-zA-Z_])", sub, s)
    if t != s and not dry: open(f, "w").write(t)
print("rewritten hashes:", total, "(dry run)" if dry else "")
for tok, (subj, fs) in sorted(unmapped.items()):
    print("UNMAPPED %s  %s  in %s" % (tok, subj, sorted(set(fs))[:3]))
