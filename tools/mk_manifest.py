#!/usr/bin/env python3
"""Regenerates MANIFEST.json: a property is claimed iff lean/RtcModel/Theorems/<ID>.lean, lean/RtcModel/Drv/<ID>.lean,
a harness props module and a propcfg entry exist AND it is listed in tools/claimed.txt (coordinator-controlled)."""
import json, os, sys, subprocess
ROOT = os.path.normpath(os.path.join(os.path.dirname(os.path.abspath(__file__)), ".."))
sys.path.insert(0, os.path.join(ROOT, "tools"))
from propcfg import PROPS
props = [json.loads(l) for l in open(os.path.join(ROOT, "properties.jsonl"))]
claimed = [l.strip() for l in open(os.path.join(ROOT, "tools", "claimed.txt")) if l.strip() and not l.startswith("#")]
old = json.load(open(os.path.join(ROOT, "MANIFEST.json")))
def repo_commits(prefix):
    out = subprocess.run(["git", "-C", "/repo", "log", "--format=%h %s"], stdout=subprocess.PIPE, text=True).stdout
    return [l.split(" ")[0] for l in out.splitlines() if l.split(" ", 1)[1].startswith(prefix)]
checks = []
for pid in claimed:
    c = PROPS.get(pid, {})
    partial = c.get("partial")
    text = c.get("level_text") or ("Lean 4 theorems (unbounded: induction / invariants / refinement) over the hand-written executable model of the anchored code, tied to /repo on every run by regenerated constants and a differential correspondence check against the real implementation; the property's own oracle is evaluated on the implementation for the violation search")
    if partial: text += " — PARTIAL: " + partial
    checks.append({
        "property_id": pid,
        "quick_cmd": "./check %s --tier quick" % pid,
        "thorough_cmd": "./check %s --tier thorough" % pid,
        "evidence_file": "evidence/%s.json" % pid,
        "replay_cmd_template": "./check %s --replay {path}" % pid,
        "engine": "lean-rtcmodel",
        "level_claimed": {"category": "proof", "text": text, "design_ref": "DESIGN.md §9 '%s — as built' (= NOTES/%s.md); design-time plan in §4" % (pid, pid)},
        "level_note": c.get("level_note") or ("Trusted: Lean 4.33 kernel (+ propext, Classical.choice, Quot.sound), the constant translator, the correspondence harness and its oracles; the model is hand-written (modelled, not verified). " + " ".join(c.get("assumptions", []))[:1500]),
        "technique": c.get("technique") or "Lean 4 proof (induction/invariants/refinement) + checked model-code correspondence",
    })
na = [{"property_id": p["id"], "reason": "not claimed in this snapshot: machinery for it is still being built (see DESIGN.md §8); the technique is applicable"} for p in props if p["id"] not in claimed]
m = {"version": 1, "setup_cmd": "cd /verif && ./check --setup",
     "hooks": {"guard": "rustrtc_verif",
               "enable": "RUSTFLAGS=\"--cfg rustrtc_verif\" (set in /verif/harness/.cargo/config.toml; the harness crate depends on /repo by path, so every check rebuilds from /repo's working tree)",
               "baseline_off_cmd": old["hooks"]["baseline_off_cmd"],
               "source_commits": list(reversed(repo_commits("verif hooks:"))), "add_only": True},
     "engines": [{"name": "lean-rtcmodel", "path": "lean/", "serves_properties": claimed,
                  "kind_free_text": "Lean 4 library RtcModel (executable models + property theorems), rtcdrv line-protocol driver, Rust harness `vh` for correspondence and implementation-side oracles, orchestrated by ./check"}],
     "checks": checks,
     "notes": "Entry point: ./check <ID> --tier quick|thorough [--seed N] | --replay <file>. fix: commits in /repo: %s. Known findings: known_findings.json." % ", ".join(reversed(repo_commits("fix:"))),
     "not_applicable": na}
json.dump(m, open(os.path.join(ROOT, "MANIFEST.json"), "w"), indent=1)
print("claimed:", claimed)
