#!/bin/bash
# End-of-build cleanup: removes every scratch worktree / clone / branch the build used, keeps the audit reports and prompts
# under NOTES/. Nothing registered in MANIFEST.json needs anything outside /verif and /repo afterwards.
mkdir -p /verif/NOTES/audits /verif/NOTES/prompts
cp /work/audit/*.md /verif/NOTES/audits/ 2>/dev/null
cp -r /work/audit/r3-C18-C09.artifacts /verif/NOTES/audits/ 2>/dev/null
cp /work/prompts/common.txt /work/prompts/round2.txt /work/prompts/round3.txt /work/prompts/round4.txt /work/prompts/audit.txt /work/prompts/audit2.txt /work/prompts/audit3.txt /work/prompts/docsync.txt /work/prompts/seed/template.txt /verif/NOTES/prompts/ 2>/dev/null
for w in $(git -C /repo worktree list --porcelain | awk '/^worktree /{print $2}' | grep -v '^/repo$'); do git -C /repo worktree remove --force "$w"; done
git -C /repo worktree prune
for b in $(git -C /repo branch --format='%(refname:short)' | grep -E '^(agent-|seed-|pre-tidy|tidy)'); do git -C /repo branch -D -q "$b"; done
rm -rf /work/agents /work/docsync /work/tidy /work/tidy_tools /tmp/seed /tmp/audit3 /tmp/audit2 /tmp/stranger /work/seeds
git -C /repo status --short | head -3; git -C /repo branch | head; git -C /repo worktree list
